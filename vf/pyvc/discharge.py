"""Discharge obligations: z3 (python API, worker processes) first, cvc5 CLI on unknown. One query per obligation."""
import os
import subprocess
import tempfile
import time
import multiprocessing as mp
import z3


def to_smt2(axioms, pc, goal):
    s = z3.Solver()
    s.add(*axioms)
    s.add(*pc)
    s.add(z3.Not(goal))
    return s.to_smt2()


def _z3_worker(args):
    smt, timeout_ms = args
    t0 = time.time()
    try:
        s = z3.Solver()
        s.set(timeout=timeout_ms)
        s.from_string(smt)
        r = str(s.check())
        reason = s.reason_unknown() if r == "unknown" else ""
        model = ""
        if r == "sat":
            try:
                model = s.model().sexpr()[:4000]
            except Exception:
                model = ""
        return r, time.time() - t0, reason, model
    except Exception as e:  # parse problem etc. -> undecided, never a verdict
        return "unknown", time.time() - t0, f"z3 error: {e}", ""


def _cvc5(smt, timeout_s, strings):
    with tempfile.NamedTemporaryFile("w", suffix=".smt2", delete=False) as f:
        f.write("(set-logic ALL)\n" + smt)
        path = f.name
    t0 = time.time()
    try:
        cmd = ["/usr/bin/cvc5", f"--tlimit={int(timeout_s * 1000)}"] + (["--strings-exp"] if strings else ["--enum-inst"])
        out = subprocess.run(cmd + [path], capture_output=True, text=True, timeout=timeout_s + 10).stdout.strip().splitlines()
        r = out[0] if out and out[0] in ("sat", "unsat", "unknown") else "unknown"
        return r, time.time() - t0
    except subprocess.TimeoutExpired:
        return "unknown", time.time() - t0
    finally:
        os.unlink(path)


def _cvc5_worker(args):
    smt, timeout_s = args
    strings = "String" in smt or "str." in smt
    r, dt = _cvc5(smt, timeout_s, strings)
    if r == "unknown" and not strings:
        r2, dt2 = _cvc5(smt, timeout_s, True)
        return r2, dt + dt2
    return r, dt


_TERMS = []
_FRESH = None


def vc_hash(smt):
    """canonical hash of a verification condition: fresh-name counters (`x!17`) are renumbered in order of first appearance inside the
    assertions, declarations are sorted; two runs that generate the same VC from the same source give the same hash, independent of which
    kernels ran before. A VC that a solver once refuted (unsat) is a mathematical fact about that text: baseline/proofs.json records such hashes."""
    import hashlib
    import re
    global _FRESH
    if _FRESH is None:
        _FRESH = re.compile(r"([A-Za-z_][A-Za-z_0-9\.\[\]]*)!(\d+)|([$?]x)(\d+)")
    lines = smt.splitlines()
    decl = [l for l in lines if l.startswith("(declare-") or l.startswith("(define-")]
    rest = "\n".join(l for l in lines if not (l.startswith("(declare-") or l.startswith("(define-") or l.startswith(";") or l.startswith("(set-")))
    m = {}

    def ren(mo):
        k = mo.group(0)
        if k not in m:
            m[k] = f"{mo.group(1) or mo.group(3)}!{len(m)}"
        return m[k]

    rest = _FRESH.sub(ren, rest)
    decl = sorted(_FRESH.sub(lambda mo: m.get(mo.group(0), (mo.group(1) or mo.group(3)) + "!unused"), d) for d in decl)
    return hashlib.sha256(("\n".join(decl) + "\n" + rest).encode()).hexdigest()[:32]


def _z3_direct(args):
    """worker (forked): solve the i-th registered query on the inherited z3 ASTs (no SMT-LIB round trip)"""
    i, timeout_ms = args
    t0 = time.time()
    try:
        axioms, pc, goal = _TERMS[i]
        s = z3.Solver()
        s.set(timeout=timeout_ms)
        s.add(*axioms)
        s.add(*pc)
        s.add(z3.Not(goal))
        r = str(s.check())
        reason = s.reason_unknown() if r == "unknown" else ""
        model = ""
        if r == "sat":
            try:
                model = s.model().sexpr()[:4000]
            except Exception:
                model = ""
        dt = time.time() - t0
        full = s.to_smt2()
        smt = full if r == "unknown" else ""
        return r, dt, reason, model, smt, vc_hash(full)
    except Exception as e:
        return "unknown", time.time() - t0, f"z3 error: {e}", "", "", ""


def discharge_terms(items, z3_timeout_s=10, cvc5_timeout_s=20, procs=None):
    """items: list of (name, axioms, pc, goal) as z3 terms. z3 in forked workers, then cvc5 CLI on the unknowns."""
    global _TERMS
    procs = procs or min(16, max(1, os.cpu_count() or 1))
    if not items:
        return []
    _TERMS = [(a, p, g) for _, a, p, g in items]
    import gc

    gc.collect()
    gc.freeze()
    ctx = mp.get_context("fork")
    res = []
    with ctx.Pool(min(procs, len(items))) as pool:
        zr = pool.map(_z3_direct, [(i, int(z3_timeout_s * 1000)) for i in range(len(items))], chunksize=1)
        open_idx = []
        for i, (r, dt, reason, model, smt, h) in enumerate(zr):
            res.append({"name": items[i][0], "verdict": r, "backend": "z3", "seconds": round(dt, 3), "reason": reason, "model": model, "vc": h})
            if r == "unknown":
                open_idx.append((i, smt))
        if open_idx:
            cr = pool.map(_cvc5_worker, [(smt, cvc5_timeout_s) for i, smt in open_idx if smt], chunksize=1)
            for (i, smt), (r, dt) in zip([x for x in open_idx if x[1]], cr):
                res[i]["seconds"] = round(res[i]["seconds"] + dt, 3)
                if r in ("unsat", "sat"):
                    res[i]["verdict"] = r
                    res[i]["backend"] = "cvc5"
    _TERMS = []
    return res


def discharge(queries, z3_timeout_s=10, cvc5_timeout_s=20, procs=None):
    """queries: list of (name, smt2). Returns list of dicts {name, verdict, backend, seconds, reason, model}."""
    procs = procs or min(16, max(1, os.cpu_count() or 1))
    res = [None] * len(queries)
    if not queries:
        return []
    ctx = mp.get_context("fork")
    with ctx.Pool(min(procs, len(queries))) as pool:
        zr = pool.map(_z3_worker, [(q[1], int(z3_timeout_s * 1000)) for q in queries], chunksize=1)
        open_idx = []
        for i, (r, dt, reason, model) in enumerate(zr):
            res[i] = {"name": queries[i][0], "verdict": r, "backend": "z3", "seconds": round(dt, 3), "reason": reason, "model": model}
            if r == "unknown":
                open_idx.append(i)
        if open_idx:
            cr = pool.map(_cvc5_worker, [(queries[i][1], cvc5_timeout_s) for i in open_idx], chunksize=1)
            for i, (r, dt) in zip(open_idx, cr):
                res[i]["seconds"] = round(res[i]["seconds"] + dt, 3)
                if r in ("unsat", "sat"):
                    res[i]["verdict"] = r
                    res[i]["backend"] = "cvc5"
    return res
