"""pyvc: verification-condition generator over the AST of real /repo functions (DESIGN.md §2.2).

Symbolic execution with path forking; every operation that can raise yields either an obligation ("cannot raise")
or, if the contract allows the class, an exceptional exit. Loops use sidecar invariants (mode 'proof') or are
unrolled (mode 'bmc', used with concrete lengths to obtain replayable counterexamples).
Anything outside the supported subset raises OutOfSubset -> the target is reported undecided, never violated.
"""
import ast
import builtins
import hashlib
import z3
from .values import *  # noqa


def _has_quantifier(e, _memo={}):
    k = e.get_id()
    if k in _memo:
        return _memo[k]
    todo, seen, res = [e], set(), False
    while todo:
        t = todo.pop()
        if t.get_id() in seen:
            continue
        seen.add(t.get_id())
        if z3.is_quantifier(t):
            res = True
            break
        todo.extend(t.children())
    _memo[k] = res
    return res


class _LazySeq:
    """sequence given by (length, element function): what enumerate/zip/reversed of symbolic sequences denote inside a comprehension"""

    def __init__(s, n, elem):
        s.n, s.at = n, elem


class OutOfSubset(Exception):
    pass


class Return:
    def __init__(s, v):
        s.v = v


class Raise:
    def __init__(s, cls, lineno=None):
        s.cls = cls
        s.lineno = lineno


class Break:
    pass


class Continue:
    pass


class Path:
    def __init__(s, frames, pc, ghost=None):
        s.frames = [dict(f) for f in frames]
        s.pc = list(pc)
        s.ghost = dict(ghost or {})  # ghost state (event logs etc.), copied on fork

    def fork(s):
        return Path(s.frames, s.pc, s.ghost)

    def lookup(s, name):
        for f in reversed(s.frames):
            if name in f:
                return f[name]
        return None

    def has(s, name):
        return any(name in f for f in s.frames)

    def bind(s, name, v, nonlocal_=False):
        if nonlocal_ or ("__nonlocal__" in s.frames[-1] and name in s.frames[-1]["__nonlocal__"]):
            for f in reversed(s.frames[:-1]):
                if name in f:
                    f[name] = v
                    return
        s.frames[-1][name] = v


class Obligation:
    def __init__(s, name, pc, goal, kind, lineno=None):
        s.name, s.pc, s.goal, s.kind, s.lineno = name, list(pc), goal, kind, lineno


def locate(path, qual):
    """Find a (possibly nested) def/class by 'A/b/c' in the file on disk; returns (node, info)."""
    src = open(path).read()
    node = ast.parse(src)
    for part in qual.split("/"):
        cands = [n for n in ast.walk(node) if isinstance(n, (ast.FunctionDef, ast.ClassDef)) and n.name == part]
        # prefer direct children, else first nested match in source order
        direct = [n for n in getattr(node, "body", []) if isinstance(n, (ast.FunctionDef, ast.ClassDef)) and n.name == part]
        if direct:
            node = direct[-1] if False else direct[0]
        elif cands:
            node = sorted(cands, key=lambda n: n.lineno)[0]
        else:
            raise LookupError(f"{qual} not found in {path} (at '{part}')")
    info = {"file": path, "qualname": qual, "lines": [node.lineno, node.end_lineno], "source_hash": hashlib.sha256(ast.unparse(node).encode()).hexdigest()[:12]}
    return node, info


PURE_BUILTINS = {"len", "tuple", "list", "range", "sorted", "int", "str", "bool", "min", "max", "sum", "abs", "repr", "set", "frozenset", "dict", "any", "all", "type", "isinstance", "reversed", "enumerate", "zip"}


class Engine:
    def __init__(s, mode="proof", module=None, axioms=(), allowed_raises=(), unroll=8, prune=True):
        s.mode = mode
        s.module = module  # real module object: closed sub-expressions and constants are evaluated in it
        s.axioms = list(axioms)
        s.allowed_raises = set(allowed_raises)
        s.obligations = []
        s.invariants = {}  # loop ordinal -> callable(engine, path) -> z3 Bool
        s.loop_counter = 0
        s.contracts = {}  # dotted source text -> SContract
        s.abstracted = set()
        s.assumed = set()
        s.int_attrs = {"ndim", "priority"}
        s.seq_attrs = {"shape": "int"}
        s.unroll = unroll
        s.prune = prune
        s._exc = [[]]
        s.stats = {"paths_pruned": 0, "forks": 0}

    # ------------------------------------------------------------------ infrastructure
    def oblige(s, name, p, goal, kind="safety", lineno=None):
        s.obligations.append(Obligation(name, p.pc, goal, kind, lineno))

    def assume(s, p, fact):
        p.pc.append(fact)

    def feasible(s, p):
        """cheap pruning: only the quantifier-free conjuncts of the path condition are consulted (a subset being unsat is sound)"""
        if not s.prune:
            return True
        sol = z3.Solver()
        sol.set("rlimit", 1000000)  # deterministic resource limit (not wall time): the explored path set must not depend on machine load
        for c in p.pc:
            if not _has_quantifier(c):
                sol.add(c)
        r = sol.check()
        if r == z3.unsat:
            s.stats["paths_pruned"] += 1
            return False
        if any(_has_quantifier(c) for c in p.pc) or s.axioms:
            full = z3.Solver()
            full.set("rlimit", 300000)
            full.add(*s.axioms)
            full.add(*p.pc)
            if full.check() == z3.unsat:
                s.stats["paths_pruned"] += 1
                return False
        return True

    def raise_(s, cls, p, lineno=None):
        s._exc[-1].append((Raise(cls, lineno), p))

    def may_raise(s, cls, ok, p, what, lineno=None):
        """The operation raises `cls` unless `ok`. Returns the continuing path (or None if it cannot continue)."""
        ok = z3.simplify(ok) if z3.is_expr(ok) else z3.BoolVal(bool(ok))
        if z3.is_true(ok):
            return p
        if cls in s.allowed_raises:
            q = p.fork()
            q.pc.append(z3.Not(ok))
            if s.feasible(q):
                s.raise_(cls, q, lineno)
            p.pc.append(ok)
            return p if s.feasible(p) else None
        s.oblige(f"{cls}:{what}", p, ok, "safety", lineno)
        p.pc.append(ok)
        return p

    def forall(s, lo, hi, body, name="k"):
        """forall k in [lo, hi): body(k); expanded when the bounds are concrete (bmc mode => quantifier-free)."""
        lo_s = z3.simplify(lo) if z3.is_expr(lo) else z3.IntVal(lo)
        hi_s = z3.simplify(hi) if z3.is_expr(hi) else z3.IntVal(hi)
        if z3.is_int_value(lo_s) and z3.is_int_value(hi_s) and hi_s.as_long() - lo_s.as_long() <= 64:
            parts = [body(z3.IntVal(k)) for k in range(lo_s.as_long(), hi_s.as_long())]
            return z3.And(*parts) if parts else z3.BoolVal(True)
        k = fresh(name)
        return z3.ForAll([k], z3.Implies(z3.And(lo_s <= k, k < hi_s), body(k)))

    def exists(s, lo, hi, body, name="k"):
        lo_s = z3.simplify(lo) if z3.is_expr(lo) else z3.IntVal(lo)
        hi_s = z3.simplify(hi) if z3.is_expr(hi) else z3.IntVal(hi)
        if z3.is_int_value(lo_s) and z3.is_int_value(hi_s) and hi_s.as_long() - lo_s.as_long() <= 64:
            parts = [body(z3.IntVal(k)) for k in range(lo_s.as_long(), hi_s.as_long())]
            return z3.Or(*parts) if parts else z3.BoolVal(False)
        k = fresh(name)
        return z3.Exists([k], z3.And(lo_s <= k, k < hi_s, body(k)))

    # ------------------------------------------------------------------ value helpers
    def truth(s, v):
        if isinstance(v, SBool):
            return v.t
        if isinstance(v, SInt):
            return v.t != 0
        if isinstance(v, (SSeq, STup)):
            return v.n != 0
        if isinstance(v, SStr):
            return z3.Length(v.t) > 0
        if isinstance(v, SConc):
            return z3.BoolVal(bool(v.v))
        if isinstance(v, SObj):
            s.abstracted.add("truthiness of an opaque object")
            return uf("truthy", Obj, B)(v.t)
        if isinstance(v, SDict):
            return z3.BoolVal(len(v.d) > 0)
        raise OutOfSubset(f"truthiness of {v!r}")

    def lift(s, pyv):
        """concrete python value -> symbolic value"""
        if isinstance(pyv, bool):
            return SBool(pyv)
        if isinstance(pyv, int):
            return SInt(pyv)
        if isinstance(pyv, (tuple, list)) and all(isinstance(x, int) and not isinstance(x, bool) for x in pyv) and len(pyv) > 0:
            return STup([SInt(x) for x in pyv], "tuple" if isinstance(pyv, tuple) else "list")
        return SConc(pyv)

    def as_seq(s, v, p, ek=None):
        """view a value as a homogeneous sequence"""
        if isinstance(v, SSeq):
            return v
        if isinstance(v, STup):
            kinds = {getattr(i, "kind", None) for i in v.items}
            if len(v.items) == 0:
                k = ek or "int"
                return SSeq(z3.K(I, z3.IntVal(0)) if k == "int" else fresh("empty", z3.ArraySort(I, sort_of(k))), 0, k, v.pykind)
            if len(kinds) == 1 and None not in kinds:
                (k,) = kinds
                a = fresh("lit", z3.ArraySort(I, sort_of(k)))
                for i, it in enumerate(v.items):
                    a = z3.Store(a, i, it.t)
                return SSeq(a, len(v.items), k, v.pykind)
            raise OutOfSubset("heterogeneous tuple used as homogeneous sequence")
        if isinstance(v, SObj):
            k = ek or getattr(s, "opaque_seq_kind", "int")
            s.abstracted.add(f"sequence view of an opaque object ({k} elements)")
            ln = uf("seq_len", Obj, I)(v.t)
            p.pc.append(ln >= 0)
            arr = uf("seq_arr_" + k, Obj, z3.ArraySort(I, sort_of(k)))(v.t)
            return SSeq(arr, ln, k, "tuple")
        if isinstance(v, SConc) and isinstance(v.v, (tuple, list, range)):
            return s.as_seq(STup([s.lift(x) for x in v.v]), p, ek)
        raise OutOfSubset(f"not a sequence: {v!r}")

    def seq_eq(s, a, b):
        if a.ek != b.ek:
            return z3.BoolVal(False) if False else z3.And(a.n == 0, b.n == 0)
        return z3.And(a.n == b.n, s.forall(0, a.n, lambda k: z3.Select(a.arr, k) == z3.Select(b.arr, k)))

    def values_eq(s, a, b, p):
        """Python == on modelled values -> z3 Bool"""
        if isinstance(a, SConc) and isinstance(b, SConc):
            return z3.BoolVal(a.v == b.v)
        if isinstance(a, (SInt, SBool)) and isinstance(b, (SInt, SBool)):
            ta = a.t if isinstance(a, SInt) else z3.If(a.t, 1, 0)
            tb = b.t if isinstance(b, SInt) else z3.If(b.t, 1, 0)
            return ta == tb
        if isinstance(a, SStr) and isinstance(b, SStr):
            return a.t == b.t
        if isinstance(a, SStr) and isinstance(b, SConc) and isinstance(b.v, str):
            return a.t == z3.StringVal(b.v)
        if isinstance(b, SStr) and isinstance(a, SConc) and isinstance(a.v, str):
            return b.t == z3.StringVal(a.v)
        if isinstance(a, SObj) and isinstance(b, SObj):
            if getattr(s, "opaque_eq", None) is not None:
                return s.opaque_eq(a.t, b.t)  # the sidecar supplies its own reading of Python's == on these objects
            s.assumed.add("== on opaque objects is identity of the abstract value (equal tracers denote the same value)")
            return a.t == b.t
        if isinstance(a, (SSeq, STup)) and isinstance(b, (SSeq, STup)):
            if isinstance(a, STup) and isinstance(b, STup):
                if len(a.items) != len(b.items):
                    return z3.BoolVal(False)
                return z3.And(*[s.values_eq(x, y, p) for x, y in zip(a.items, b.items)]) if a.items else z3.BoolVal(True)
            sa, sb = s.as_seq(a, p), s.as_seq(b, p)
            return s.seq_eq(sa, sb)
        if isinstance(a, SRec) and isinstance(b, SRec) and (a.cls == "val" or b.cls == "val"):
            # provenance records (data-flow contracts): identical record -> equal; otherwise an unconstrained (deterministic) Boolean
            if a is b:
                return z3.BoolVal(True)
            s.abstracted.add("== between two provenance records (uninterpreted Boolean)")
            return z3.Bool(f"eq_rec[{id(a)},{id(b)}]")
        if isinstance(a, SSet) and isinstance(b, SSet):
            if a.ek != b.ek:
                raise OutOfSubset("== between sets of different element kinds")
            x = fresh("sx", sort_of(a.ek))
            return z3.ForAll([x], z3.Select(a.member, x) == z3.Select(b.member, x))
        if isinstance(a, SConc) and a.v is None or isinstance(b, SConc) and b.v is None:
            # None == non-None modelled value
            other = b if (isinstance(a, SConc) and a.v is None) else a
            if isinstance(other, SObj):
                return uf("is_None", Obj, B)(other.t)
            return z3.BoolVal(False)
        if (isinstance(a, SObj) and isinstance(b, SInt) and z3.is_int_value(z3.simplify(b.t))) or (isinstance(b, SObj) and isinstance(a, SInt) and z3.is_int_value(z3.simplify(a.t))):
            o, c = (a, b) if isinstance(a, SObj) else (b, a)
            cv = z3.simplify(c.t).as_long()
            s.abstracted.add(f"== between an opaque object and constant {cv!r}")
            return uf(f"eq_const[{cv!r}]", Obj, B)(o.t)
        if isinstance(a, SConc) or isinstance(b, SConc):
            c, o = (a, b) if isinstance(a, SConc) else (b, a)
            if isinstance(o, (SInt, SBool)) and isinstance(c.v, (int, bool)):
                return s.values_eq(s.lift(c.v), o, p)
            if isinstance(o, (SSeq, STup)) and isinstance(c.v, (tuple, list)):
                return s.values_eq(s.as_seq(c, p), o, p) if len(c.v) else (o.n == 0)
            if isinstance(o, SObj):
                s.abstracted.add(f"== between an opaque object and constant {c.v!r}")
                return uf(f"eq_const[{c.v!r}]", Obj, B)(o.t)
            return z3.BoolVal(False)
        raise OutOfSubset(f"== between {a!r} and {b!r}")

    def flat_terms(s, v):
        if isinstance(v, (SInt, SBool, SStr, SObj)):
            return [v.t], v.kind[0]
        if isinstance(v, SSeq):
            return [v.arr, v.n], "q" + v.ek[0]
        if isinstance(v, STup):
            ts, sig = [], "T"
            for it in v.items:
                t, g = s.flat_terms(it)
                ts += t
                sig += g
            return ts, sig + "."
        if isinstance(v, SConc):
            return [], f"<{v.v!r}>"
        if isinstance(v, SRec):
            ts, sig = [], "R" + v.cls
            for k in sorted(v.f):
                t, g = s.flat_terms(v.f[k])
                ts += t
                sig += g
            return ts, sig
        raise OutOfSubset(f"cannot pass {v!r} to an abstracted call")

    def abstract_call(s, name, args, kwargs, p, result="obj"):
        ts, sig = [], ""
        for a in list(args) + [kwargs[k] for k in sorted(kwargs)]:
            t, g = s.flat_terms(a)
            ts += t
            sig += g + ","
        sig += "|" + ",".join(sorted(kwargs))
        s.abstracted.add(f"call {name}(...) (deterministic uninterpreted function)")
        if not ts:
            return wrap(z3.Const(f"call_{name}[{sig}]", sort_of(result)), result)
        f = uf(f"call_{name}[{sig}]", *[t.sort() for t in ts], sort_of(result))
        return wrap(f(*ts), result)

    # ------------------------------------------------------------------ expressions (generators of (value, path))
    def ev(s, node, p):
        m = getattr(s, "ev_" + type(node).__name__, None)
        if m is None:
            raise OutOfSubset(f"expression {type(node).__name__} at line {getattr(node, 'lineno', '?')}")
        yield from m(node, p)

    def ev_list(s, nodes, p):
        """evaluate several expressions left to right -> (list of values, path)"""
        if not nodes:
            yield [], p
            return
        for v, p1 in s.ev(nodes[0], p):
            for rest, p2 in s.ev_list(nodes[1:], p1):
                yield [v] + rest, p2

    def dotted(s, n):
        try:
            return ast.unparse(n)
        except Exception:
            return None

    def ev_Constant(s, n, p):
        v = n.value
        if isinstance(v, bool):
            yield SBool(v), p
        elif isinstance(v, int):
            yield SInt(v), p
        elif isinstance(v, str):
            yield SConc(v), p
        else:
            yield SConc(v), p

    def ev_Name(s, n, p):
        if p.has(n.id):
            v = p.lookup(n.id)
            if v is None:
                raise OutOfSubset(f"name {n.id} unbound on this path (line {n.lineno})")
            yield v, p
            return
        if n.id in s.contracts:
            yield s.contracts[n.id], p
            return
        if s.module is not None and n.id in vars(s.module):
            yield s.lift(vars(s.module)[n.id]), p
            return
        if hasattr(builtins, n.id):
            yield SConc(getattr(builtins, n.id)), p
            return
        raise OutOfSubset(f"unbound name {n.id} (line {n.lineno})")

    def ev_Tuple(s, n, p):
        if any(isinstance(e, ast.Starred) for e in n.elts):
            # (*a, b) : concatenation
            def parts(elts, p0):
                if not elts:
                    yield [], p0
                    return
                e = elts[0]
                for v, p1 in s.ev(e.value if isinstance(e, ast.Starred) else e, p0):
                    for rest, p2 in parts(elts[1:], p1):
                        yield [(isinstance(e, ast.Starred), v)] + rest, p2

            for ps, p1 in parts(n.elts, p):
                acc = None
                for star, v in ps:
                    piece = s.as_seq(v, p1) if star else s.as_seq(STup([v]), p1)
                    acc = piece if acc is None else s.concat(acc, piece, p1)
                yield acc, p1
            return
        for vs, p1 in s.ev_list(n.elts, p):
            yield STup(vs, "tuple" if isinstance(n, ast.Tuple) else "list"), p1

    ev_List = ev_Tuple

    def ev_Dict(s, n, p):
        for ks, p1 in s.ev_list([k for k in n.keys], p):
            for vs, p2 in s.ev_list(n.values, p1):
                if not all(isinstance(k, SConc) for k in ks):
                    raise OutOfSubset("dict display with symbolic keys")
                yield SDict({k.v: v for k, v in zip(ks, vs)}), p2

    def ev_UnaryOp(s, n, p):
        for v, p1 in s.ev(n.operand, p):
            if isinstance(n.op, ast.USub):
                if isinstance(v, SConc):
                    yield s.lift(-v.v), p1
                else:
                    yield SInt(-v.t), p1
            elif isinstance(n.op, ast.Not):
                yield SBool(z3.Not(s.truth(v))), p1
            else:
                raise OutOfSubset("unary operator")

    def concat(s, a, b, p):
        if a.ek != b.ek:
            if z3.is_int_value(z3.simplify(a.n)) and z3.simplify(a.n).as_long() == 0:
                return b
            if z3.is_int_value(z3.simplify(b.n)) and z3.simplify(b.n).as_long() == 0:
                return a
            raise OutOfSubset("concatenation of sequences with different element kinds")
        an, bn = z3.simplify(a.n), z3.simplify(b.n)
        if z3.is_int_value(bn) and bn.as_long() <= 8:
            arr = a.arr
            for i in range(bn.as_long()):
                arr = z3.Store(arr, a.n + i, z3.Select(b.arr, i))
            return SSeq(arr, a.n + b.n, a.ek, a.pykind)
        r = fresh("cat", z3.ArraySort(I, sort_of(a.ek)))
        p.pc.append(s.forall(0, a.n + b.n, lambda k: z3.Select(r, k) == z3.If(k < a.n, z3.Select(a.arr, k), z3.Select(b.arr, k - a.n))))
        return SSeq(r, a.n + b.n, a.ek, a.pykind)

    def binop(s, op, a, b, p, lineno=None):
        if isinstance(a, SConc) and isinstance(b, SConc):
            import operator

            f = {ast.Add: operator.add, ast.Sub: operator.sub, ast.Mult: operator.mul, ast.FloorDiv: operator.floordiv, ast.Mod: operator.mod, ast.BitOr: operator.or_}.get(type(op))
            if f is None:
                raise OutOfSubset("binary operator on constants")
            return s.lift(f(a.v, b.v))
        if isinstance(op, ast.BitOr) and isinstance(a, SDict) and isinstance(b, SDict):
            d = dict(a.d)
            d.update(b.d)
            return SDict(d)
        if isinstance(op, ast.Sub) and isinstance(a, SSet) and isinstance(b, SSet) and a.ek == b.ek:
            x = z3.Const("setx!", sort_of(a.ek))
            return SSet(z3.Lambda([x], z3.And(z3.Select(a.member, x), z3.Not(z3.Select(b.member, x)))), a.ek)
        if isinstance(op, ast.Mult) and isinstance(a, STup) and isinstance(b, (SInt, SConc)) and not isinstance(b, SBool):
            # sequence repetition: concrete count -> concrete tuple; symbolic count only for a 1-element sequence (constant sequence of that length)
            cnt = z3.simplify(b.t) if isinstance(b, SInt) else z3.IntVal(int(b.v))
            if z3.is_int_value(cnt):
                return STup(a.items * max(cnt.as_long(), 0), a.pykind)
            if len(a.items) == 1 and getattr(a.items[0], "kind", None) in ("int", "obj"):
                it = a.items[0]
                return SSeq(z3.K(I, it.t), z3.If(cnt > 0, cnt, 0), it.kind, a.pykind)
            raise OutOfSubset("repetition of a multi-element tuple a symbolic number of times")
        if isinstance(op, ast.Add) and isinstance(a, (SSeq, STup)) and isinstance(b, (SSeq, STup)):
            if isinstance(a, STup) and isinstance(b, STup):
                return STup(a.items + b.items, a.pykind)
            return s.concat(s.as_seq(a, p), s.as_seq(b, p), p)
        if isinstance(op, ast.Add) and isinstance(a, (SStr, SConc)) and isinstance(b, (SStr, SConc)):
            ta = a.t if isinstance(a, SStr) else z3.StringVal(a.v)
            tb = b.t if isinstance(b, SStr) else z3.StringVal(b.v)
            return SStr(z3.Concat(ta, tb))

        def ti(v):
            if isinstance(v, SInt):
                return v.t
            if isinstance(v, SBool):
                return z3.If(v.t, 1, 0)
            if isinstance(v, SConc) and isinstance(v.v, int):
                return z3.IntVal(v.v)
            raise OutOfSubset(f"arithmetic on {v!r}")

        x, y = ti(a), ti(b)
        if isinstance(op, ast.Add):
            return SInt(x + y)
        if isinstance(op, ast.Sub):
            return SInt(x - y)
        if isinstance(op, ast.Mult):
            return SInt(x * y)
        if isinstance(op, (ast.FloorDiv, ast.Mod)):
            q = s.may_raise("ZeroDivisionError", y != 0, p, f"line{lineno}", lineno)
            # python floor semantics: z3 div/mod are euclidean (remainder >= 0); adjust for negative divisor
            fl = z3.If(y > 0, x / y, z3.If((x % (-y)) == 0, -(x / (-y)), -(x / (-y)) - 1))
            if isinstance(op, ast.FloorDiv):
                return SInt(fl)
            return SInt(x - y * fl)
        raise OutOfSubset("binary operator")

    def ev_BinOp(s, n, p):
        for a, p1 in s.ev(n.left, p):
            for b, p2 in s.ev(n.right, p1):
                yield s.binop(n.op, a, b, p2, n.lineno), p2

    def compare(s, op, a, b, p):
        if isinstance(op, (ast.Eq, ast.NotEq)):
            e = s.values_eq(a, b, p)
            return e if isinstance(op, ast.Eq) else z3.Not(e)
        if isinstance(op, (ast.Is, ast.IsNot)):
            if isinstance(a, SConc) and isinstance(b, SConc):
                e = z3.BoolVal(a.v is b.v)
            elif isinstance(b, SConc) and b.v is None:
                e = uf("is_None", Obj, B)(a.t) if isinstance(a, SObj) else z3.BoolVal(False)
            elif isinstance(a, SObj) and isinstance(b, SObj):
                e = a.t == b.t
            else:
                raise OutOfSubset("is")
            return e if isinstance(op, ast.Is) else z3.Not(e)
        if isinstance(op, (ast.In, ast.NotIn)):
            if isinstance(b, SConc) and isinstance(b.v, (list, tuple, set, frozenset, dict)):
                e = z3.Or(*[s.values_eq(a, s.lift(x), p) for x in b.v]) if len(b.v) else z3.BoolVal(False)
            elif isinstance(b, SDict):
                e = z3.Or(*[s.values_eq(a, s.lift(x), p) for x in b.d]) if b.d else z3.BoolVal(False)
            elif isinstance(b, STup):
                e = z3.Or(*[s.values_eq(a, x, p) for x in b.items]) if b.items else z3.BoolVal(False)
            elif isinstance(b, SSeq) and hasattr(b, "range_of") and isinstance(a, SInt):
                e = z3.And(b.range_of[0] <= a.t, a.t < b.range_of[1])
            elif isinstance(b, SSeq):
                e = s.exists(0, b.n, lambda k: z3.Select(b.arr, k) == a.t)
            elif isinstance(b, SSet):
                e = z3.Select(b.member, a.t)
            elif isinstance(b, SObj):
                ts, sig = s.flat_terms(a)
                s.abstracted.add("`in` on an opaque container")
                e = uf(f"contains[{sig}]", Obj, *[t.sort() for t in ts], B)(b.t, *ts)
            else:
                raise OutOfSubset(f"in {b!r}")
            return e if isinstance(op, ast.In) else z3.Not(e)

        def ti(v):
            if isinstance(v, SInt):
                return v.t
            if isinstance(v, SBool):
                return z3.If(v.t, 1, 0)
            if isinstance(v, SConc) and isinstance(v.v, int):
                return z3.IntVal(v.v)
            raise OutOfSubset(f"ordering comparison on {v!r}")

        x, y = ti(a), ti(b)
        return {ast.Lt: x < y, ast.LtE: x <= y, ast.Gt: x > y, ast.GtE: x >= y}[type(op)]

    def ev_Compare(s, n, p):
        for vs, p1 in s.ev_list([n.left] + n.comparators, p):
            cs = [s.compare(op, vs[i], vs[i + 1], p1) for i, op in enumerate(n.ops)]
            yield SBool(z3.And(*cs) if len(cs) > 1 else cs[0]), p1

    def ev_BoolOp(s, n, p):
        # short-circuit: later operands are evaluated only on paths where earlier ones did not decide
        def go(vals, p0):
            if len(vals) == 1:
                yield from s.ev(vals[0], p0)
                return
            for v, p1 in s.ev(vals[0], p0):
                c = z3.simplify(s.truth(v))
                decided = z3.Not(c) if isinstance(n.op, ast.And) else c
                if z3.is_true(decided):
                    yield v, p1
                    continue
                if z3.is_false(decided):
                    yield from go(vals[1:], p1)
                    continue
                pa = p1.fork()
                pa.pc.append(decided)
                if s.feasible(pa):
                    yield (SBool(isinstance(n.op, ast.Or)) if isinstance(v, (SBool, SInt)) else v), pa
                pb = p1.fork()
                pb.pc.append(z3.Not(decided))
                if s.feasible(pb):
                    yield from go(vals[1:], pb)

        yield from go(n.values, p)

    def ev_IfExp(s, n, p):
        for c, p1 in s.ev(n.test, p):
            t = z3.simplify(s.truth(c))
            if not z3.is_false(t):
                pa = p1.fork()
                pa.pc.append(t)
                if z3.is_true(t) or s.feasible(pa):
                    yield from s.ev(n.body, pa)
            if not z3.is_true(t):
                pb = p1.fork()
                pb.pc.append(z3.Not(t))
                if z3.is_false(t) or s.feasible(pb):
                    yield from s.ev(n.orelse, pb)

    def ev_Lambda(s, n, p):
        fd = ast.FunctionDef(name="<lambda>", args=n.args, body=[ast.copy_location(ast.Return(value=n.body), n)], decorator_list=[], returns=None, type_comment=None, type_params=[])
        ast.copy_location(fd, n)
        ast.fix_missing_locations(fd)
        yield SFunc(fd), p

    def ev_JoinedStr(s, n, p):
        # f-strings only occur in messages: value is an opaque string, but embedded expressions are evaluated (they may raise)
        exprs = [v.value for v in n.values if isinstance(v, ast.FormattedValue)]
        for _, p1 in s.ev_list(exprs, p):
            yield SConc("<f-string>"), p1

    def ev_Attribute(s, n, p):
        d = s.dotted(n)
        if d in s.contracts:
            yield s.contracts[d], p
            return
        for o, p1 in s.ev(n.value, p):
            yield s.getattr(o, n.attr, p1, n.lineno), p1

    def getattr(s, o, attr, p, lineno=None):
        if isinstance(o, SRec):
            if attr in o.f:
                return o.f[attr]
            raise OutOfSubset(f"record {o.cls} has no field {attr}")
        if isinstance(o, SObj):
            s.abstracted.add(f".{attr}")
            if attr in s.int_attrs:
                return SInt(uf("attr_" + attr, Obj, I)(o.t))
            if attr in getattr(s, "bool_attrs", ()):
                return SBool(uf("attr_" + attr, Obj, B)(o.t))
            if attr in s.seq_attrs:
                return s.as_seq(SObj(uf("attr_" + attr, Obj, Obj)(o.t)), p, s.seq_attrs[attr])
            return SObj(uf("attr_" + attr, Obj, Obj)(o.t))
        if isinstance(o, SConc):
            try:
                return s.lift(getattr(o.v, attr))
            except AttributeError:
                raise OutOfSubset(f"attribute {attr} of constant {o.v!r}")
        if isinstance(o, (SSeq, STup, SStr, SDict, SMap, SZip)):
            return ("method", o, attr)
        raise OutOfSubset(f"attribute {attr} of {o!r}")

    def index(s, seq, idx, p, what, lineno=None):
        """normalised index with IndexError obligation; returns (index term, path)"""
        i = z3.If(idx < 0, idx + seq.n, idx)
        q = s.may_raise("IndexError", z3.And(0 <= i, i < seq.n), p, what, lineno)
        return z3.simplify(i), q

    def slice_of(s, o, lo, hi, p):
        n = o.n if not isinstance(o, SStr) else z3.Length(o.t)

        def clamp(v):
            return z3.If(v < 0, z3.If(v + n < 0, 0, v + n), z3.If(v > n, n, v))

        lo = z3.IntVal(0) if lo is None else clamp(lo)
        hi = n if hi is None else clamp(hi)
        ln = z3.If(hi > lo, hi - lo, 0)
        if isinstance(o, SStr):
            return SStr(z3.SubString(o.t, lo, ln))
        lo_s, ln_s = z3.simplify(lo), z3.simplify(ln)
        r = fresh("slc", z3.ArraySort(I, sort_of(o.ek)))
        p.pc.append(s.forall(0, ln_s, lambda k: z3.Select(r, k) == z3.Select(o.arr, lo_s + k)))
        return SSeq(r, ln_s, o.ek, o.pykind)

    def ev_Subscript(s, n, p):
        for o, p1 in s.ev(n.value, p):
            if isinstance(n.slice, ast.Slice):
                if n.slice.step is not None:
                    raise OutOfSubset("slice step")
                bounds = [b for b in (n.slice.lower, n.slice.upper) if b is not None]
                for bs, p2 in s.ev_list(bounds, p1):
                    bs = list(bs)
                    lo = bs.pop(0).t if n.slice.lower is not None else None
                    hi = bs.pop(0).t if n.slice.upper is not None else None
                    if isinstance(o, STup):
                        lo_c = None if lo is None else z3.simplify(lo)
                        hi_c = None if hi is None else z3.simplify(hi)
                        if (lo_c is None or z3.is_int_value(lo_c)) and (hi_c is None or z3.is_int_value(hi_c)):
                            sl = slice(None if lo_c is None else lo_c.as_long(), None if hi_c is None else hi_c.as_long())
                            yield STup(o.items[sl], o.pykind), p2
                            continue
                    oo = o if isinstance(o, SStr) else s.as_seq(o, p2)
                    yield s.slice_of(oo, lo, hi, p2), p2
                continue
            for idx, p2 in s.ev(n.slice, p1):
                if isinstance(o, SDict):
                    if not isinstance(idx, SConc):
                        raise OutOfSubset("dict subscript with symbolic key")
                    q = s.may_raise("KeyError", z3.BoolVal(idx.v in o.d), p2, f"line{n.lineno}", n.lineno)
                    if q is not None and idx.v in o.d:
                        yield o.d[idx.v], q
                    continue
                if isinstance(o, SObj) and isinstance(idx, SInt) and isinstance(n.value, ast.Name) and n.value.id in getattr(s, "int_keyed_mappings", ()):
                    # an opaque dict with integer keys (declared by the sidecar): table[key] is a deterministic function of (table, key); KeyError not modelled (declared total)
                    s.abstracted.add(f"{n.value.id}[int key] (opaque int-keyed mapping, total)")
                    yield SObj(uf("item_int", Obj, I, Obj)(o.t, idx.t)), p2
                    continue
                if isinstance(o, SObj):
                    if isinstance(idx, SInt) and z3.is_int_value(z3.simplify(idx.t)):
                        c = z3.simplify(idx.t).as_long()
                        s.abstracted.add(f"[{c}]")
                        yield SObj(uf(f"item_{c}", Obj, Obj)(o.t)), p2
                    elif isinstance(idx, SInt):
                        sq = s.as_seq(o, p2)
                        i, q = s.index(sq, idx.t, p2, f"line{n.lineno}", n.lineno)
                        if q is not None:
                            yield sq.at(i), q
                    else:
                        ts, sig = s.flat_terms(idx)
                        s.abstracted.add("[key] on an opaque mapping")
                        yield SObj(uf(f"getitem[{sig}]", Obj, *[t.sort() for t in ts], Obj)(o.t, *ts)), p2
                    continue
                if isinstance(o, STup):
                    it = z3.simplify(idx.t)
                    if z3.is_int_value(it):
                        c = it.as_long()
                        q = s.may_raise("IndexError", z3.BoolVal(-len(o.items) <= c < len(o.items)), p2, f"line{n.lineno}", n.lineno)
                        if q is not None and -len(o.items) <= c < len(o.items):
                            yield o.items[c], q
                        continue
                    o = s.as_seq(o, p2)
                if isinstance(o, SSeq):
                    i, q = s.index(o, idx.t, p2, f"line{n.lineno}", n.lineno)
                    if q is not None:
                        yield o.at(i), q
                    continue
                if isinstance(o, SStr):
                    ln = z3.Length(o.t)
                    i = z3.If(idx.t < 0, idx.t + ln, idx.t)
                    q = s.may_raise("IndexError", z3.And(0 <= i, i < ln), p2, f"line{n.lineno}", n.lineno)
                    if q is not None:
                        yield SStr(z3.SubString(o.t, i, 1)), q
                    continue
                raise OutOfSubset(f"subscript of {o!r}")

    # comprehensions -------------------------------------------------------------------------------------------
    def comp_summary(s, elt, gens, p, want="list"):
        """[elt for x in xs if c] -> fresh sequence with quantified defining axioms (DESIGN §2.2 'auto-invariants')."""
        if len(gens) != 1 or gens[0].is_async:
            raise OutOfSubset("comprehension with several generators")
        g = gens[0]
        # engine lemma (exact): [i for i in range(lo, hi) if i != c]  ==  range(lo, hi) with the single value c removed
        if (isinstance(g.iter, ast.Call) and isinstance(g.iter.func, ast.Name) and g.iter.func.id == "range" and not p.has("range") and len(g.iter.args) in (1, 2)
                and isinstance(g.target, ast.Name) and isinstance(elt, ast.Name) and elt.id == g.target.id and len(g.ifs) == 1
                and isinstance(g.ifs[0], ast.Compare) and len(g.ifs[0].ops) == 1 and isinstance(g.ifs[0].ops[0], ast.NotEq)
                and isinstance(g.ifs[0].left, ast.Name) and g.ifs[0].left.id == g.target.id
                and not any(isinstance(nn, ast.Name) and nn.id == g.target.id for nn in ast.walk(g.ifs[0].comparators[0]))):
            for av, p1 in s.ev_list(list(g.iter.args) + [g.ifs[0].comparators[0]], p):
                lo, hi = (z3.IntVal(0), av[0].t) if len(g.iter.args) == 1 else (av[0].t, av[1].t)
                c = av[-1]
                if not isinstance(c, SInt):
                    raise OutOfSubset("range filter against a non-int")
                n = z3.If(hi > lo, hi - lo, 0)
                inside = z3.And(lo <= c.t, c.t < hi)
                vi = z3.Int("rf!")
                arr = z3.Lambda([vi], z3.If(z3.And(inside, lo + vi >= c.t), lo + vi + 1, lo + vi))
                s.assumed.add("engine lemma: a range with one value filtered out (exact; cross-checked natively by the kernel's twin)")
                yield SSeq(arr, z3.simplify(z3.If(inside, n - 1, n)), "int", "list"), p1
            return
        def sources():
            if isinstance(g.iter, ast.Call) and isinstance(g.iter.func, ast.Name) and g.iter.func.id in ("enumerate", "zip", "reversed") and not p.has(g.iter.func.id) and hasattr(s, "loop_items"):
                for kind, pay, p1 in s.loop_items(g.iter, p):
                    if kind == "items":
                        yield STup(pay), p1
                    elif kind == "seq":
                        yield _LazySeq(*pay), p1
                    else:
                        raise OutOfSubset("comprehension over a set")
                return
            for it, p1 in s.ev(g.iter, p):
                yield s.iter_seq(it, p1), p1

        for xs, p1 in sources():
            n_c = z3.simplify(xs.n)
            if z3.is_int_value(n_c) and n_c.as_long() <= 12:
                # concrete length: element-wise evaluation (forks), no quantifiers
                def go(k, acc, p0):
                    if k == n_c.as_long():
                        yield list(acc), p0
                        return
                    q = p0.fork()
                    s.assign(g.target, xs.items[k] if isinstance(xs, STup) else xs.at(z3.IntVal(k)), q)
                    conds = list(s.ev_list(g.ifs, q)) if g.ifs else [([], q)]
                    for cv, q1 in conds:
                        c = z3.simplify(z3.And(*[s.truth(x) for x in cv])) if cv else z3.BoolVal(True)
                        if not z3.is_false(c):
                            qa = q1.fork()
                            qa.pc.append(c)
                            if z3.is_true(c) or s.feasible(qa):
                                for v, q2 in s.ev(elt, qa):
                                    yield from go(k + 1, acc + [v], q2)
                        if not z3.is_true(c):
                            qb = q1.fork()
                            qb.pc.append(z3.Not(c))
                            if z3.is_false(c) or s.feasible(qb):
                                yield from go(k + 1, acc, qb)

                for items, p2 in go(0, [], p1):
                    yield STup(items, "list"), p2
                continue
            # symbolic length: evaluate on a generic element
            k = fresh("ck")
            mark = fresh_mark()
            sub = p1.fork()
            base = len(sub.pc)
            sub.pc.append(z3.And(0 <= k, k < xs.n))
            s.assign(g.target, xs.at(k), sub)
            s._exc.append([])
            branches, dropped = [], []
            for cv, q in (s.ev_list(g.ifs, sub) if g.ifs else [([], sub)]):
                c = z3.And(*[s.truth(x) for x in cv]) if cv else z3.BoolVal(True)
                qa = q.fork()
                qa.pc.append(c)
                if g.ifs:
                    dropped.append(z3.And(*q.pc[base + 1 :], z3.Not(c)))
                for v, q2 in s.ev(elt, qa):
                    branches.append((z3.And(*q2.pc[base + 1 :]), c, v))
            exc = s._exc.pop()
            for out, q in exc:
                # element evaluation raises for some k: exceptional exit of the whole comprehension, else assume not
                cond = z3.And(*q.pc[base:])
                ex = p1.fork()
                ex.pc.append(z3.Exists([k], cond))
                if s.feasible(ex):
                    s.raise_(out.cls, ex, out.lineno)
                p1.pc.append(z3.ForAll([k], z3.Not(cond)))
            if not branches:
                raise OutOfSubset("comprehension element has no normal exit")
            # values created while evaluating the generic element (e.g. the result of .index, max) are chosen per element: they become
            # Skolem functions of k, and their defining constraints (part of the branch conditions) are asserted for every k
            sk_terms = [t for cond, c, v in branches for t in (cond, c, getattr(v, "t", None))] + dropped
            dropped_feasible = any(not z3.is_false(z3.simplify(d)) for d in dropped)
            consts, funs = fresh_since(mark, sk_terms)
            if funs:
                raise OutOfSubset("comprehension element defines a quantified value (nested filter/comprehension)")
            if consts:
                sub_ = [(c0, fresh_fun("sk", I, c0.sort())(k)) for c0 in consts]
                sk = lambda t: z3.substitute(t, *sub_)  # noqa
                nb = []
                for cond, c, v in branches:
                    if not hasattr(v, "t"):
                        raise OutOfSubset("comprehension element of non-scalar kind with per-element definitions")
                    nb.append((sk(cond), sk(c), wrap(sk(v.t), v.kind)))
                branches = nb
                dropped = [sk(d) for d in dropped]
                p1.pc.append(z3.ForAll([k], z3.Implies(z3.And(0 <= k, k < xs.n), z3.Or(*([cond for cond, _, _ in branches] + dropped)))))
            kinds = {getattr(v, "kind", None) for _, _, v in branches}
            if all(isinstance(v, SConc) for _, _, v in branches):
                s.abstracted.add("comprehension producing opaque constants/strings (result is an opaque sequence)")
                yield SObj(fresh("opaque_list", Obj)), p1
                continue
            if len(kinds) != 1 or None in kinds:
                raise OutOfSubset("comprehension element of non-scalar kind")
            (ek,) = kinds
            val = branches[-1][2].t
            for cond, _, v in reversed(branches[:-1]):
                val = z3.If(cond, v.t, val)
            r = fresh("cmp", z3.ArraySort(I, sort_of(ek)))
            trivially_kept = bool(g.ifs) and not dropped_feasible and all(z3.is_true(z3.simplify(c)) for _, c, _ in branches)
            if not g.ifs or trivially_kept:
                p1.pc.append(z3.ForAll([k], z3.Implies(z3.And(0 <= k, k < xs.n), z3.Select(r, k) == val)))
                yield SSeq(r, xs.n, ek, "list"), p1
            else:
                keep = z3.Or(*[z3.And(cond, c) for cond, c, _ in branches]) if False else z3.Or(*[cond for cond, c, _ in branches])
                # filter: strictly increasing embedding iota: [0,m) -> [0,n) onto the kept indices
                m = fresh("flen")
                iota = fresh_fun("iota", I, I)
                inv = fresh_fun("iotainv", I, I)
                j, j2 = fresh("j"), fresh("j2")
                keep_at = lambda t: z3.substitute(keep, (k, t))  # noqa
                val_at = lambda t: z3.substitute(val, (k, t))  # noqa
                p1.pc.append(z3.And(0 <= m, m <= xs.n))
                p1.pc.append(z3.ForAll([j], z3.Implies(z3.And(0 <= j, j < m), z3.And(0 <= iota(j), iota(j) < xs.n, keep_at(iota(j)), z3.Select(r, j) == val_at(iota(j)), inv(iota(j)) == j))))
                p1.pc.append(z3.ForAll([j, j2], z3.Implies(z3.And(0 <= j, j < j2, j2 < m), iota(j) < iota(j2))))
                p1.pc.append(z3.ForAll([k], z3.Implies(z3.And(0 <= k, k < xs.n, keep), z3.And(0 <= inv(k), inv(k) < m, iota(inv(k)) == k))))
                sq = SSeq(r, m, ek, "list")
                sq.filter_of = (xs, iota, inv, keep_at)
                yield sq, p1

    def ev_ListComp(s, n, p):
        yield from s.comp_summary(n.elt, n.generators, p)

    ev_GeneratorExp = ev_ListComp

    def ev_SetComp(s, n, p):
        """{elt for x in xs if c} = set([elt for x in xs if c]) (membership only)"""
        s._in_setcomp = getattr(s, "_in_setcomp", 0) + 1
        try:
            results = list(s.comp_summary(n.elt, n.generators, p))
        finally:
            s._in_setcomp -= 1
        for lst, p1 in results:
            if isinstance(lst, STup):
                if not lst.items:
                    yield SSet(None, None), p1
                    continue
                lst = s.as_seq(lst, p1)
            if not isinstance(lst, SSeq) or lst.ek not in ("int", "obj"):
                raise OutOfSubset("set comprehension over non int/obj elements")
            x = z3.Const("setx!", sort_of(lst.ek))
            k = fresh("sk")
            yield SSet(z3.Lambda([x], z3.Exists([k], z3.And(0 <= k, k < lst.n, z3.Select(lst.arr, k) == x))), lst.ek), p1

    def set_enumeration(s, st, p):
        """a finite set viewed as a sequence: SOME enumeration (arbitrary order, possibly with repetitions) whose members are exactly the set's members"""
        if st.member is None:
            return SSeq(z3.K(I, z3.IntVal(0)), 0, "int", "list")
        arr, ln = fresh("enum", z3.ArraySort(I, sort_of(st.ek))), fresh("enum_len")
        x, k = fresh("ex", sort_of(st.ek)), fresh("ek")
        p.pc.append(ln >= 0)
        p.pc.append(z3.ForAll([k], z3.Implies(z3.And(0 <= k, k < ln), z3.Select(st.member, z3.Select(arr, k)))))
        p.pc.append(z3.ForAll([x], z3.Implies(z3.Select(st.member, x), z3.Exists([k], z3.And(0 <= k, k < ln, z3.Select(arr, k) == x)))))
        s.assumed.add("a finite set has an enumeration (sequence with exactly its members); comprehensions over a set use one, results that are sets do not depend on its order")
        return SSeq(arr, ln, st.ek, "list")

    def iter_seq(s, it, p):
        if isinstance(it, STup):
            kinds = {getattr(i, "kind", None) for i in it.items}
            if len(kinds) > 1 or None in kinds:
                return it  # heterogeneous concrete tuple: supports .items / len only
            return s.as_seq(it, p) if it.items else s.as_seq(it, p)
        if isinstance(it, SSet):
            if getattr(s, "_in_setcomp", 0) <= 0:
                raise OutOfSubset("iteration over a set outside a for statement / set comprehension")
            return s.set_enumeration(it, p)
        return s.as_seq(it, p)
