"""pyvc part 2: calls, builtins, statements, loops."""
import ast
import z3
from .values import *  # noqa
from .engine import Engine, OutOfSubset, Return, Raise, Break, Continue, Path

MUTATORS = {"append", "insert", "pop", "extend", "remove", "clear", "update", "add", "sort", "reverse"}


def class_parts(node):
    """isinstance second argument -> list of class expression nodes (A | B, (A, B))"""
    if isinstance(node, ast.BinOp) and isinstance(node.op, ast.BitOr):
        return class_parts(node.left) + class_parts(node.right)
    if isinstance(node, ast.Tuple):
        return [q for e in node.elts for q in class_parts(e)]
    return [node]


class Exec(Engine):
    # ------------------------------------------------------------------ calls
    def ev_Call(s, n, p):
        d = s.dotted(n.func)
        # argument evaluation (positional, keywords, **dict)
        def args_then(p0):
            pos = [a for a in n.args]
            star = [isinstance(a, ast.Starred) for a in pos]
            for av0, p1 in s.ev_list([a.value if st_ else a for a, st_ in zip(pos, star)], p0):
                av = []
                for v, st_ in zip(av0, star):
                    if not st_:
                        av.append(v)
                    elif isinstance(v, STup):
                        av.extend(v.items)
                    else:
                        raise OutOfSubset("*args of symbolic length at a call site")
                for kv, p2 in s.ev_list([k.value for k in n.keywords], p1):
                    kwargs = {}
                    for k, v in zip(n.keywords, kv):
                        if k.arg is None:
                            if not isinstance(v, SDict):
                                raise OutOfSubset("** of a non-dict")
                            kwargs.update(v.d)
                        else:
                            kwargs[k.arg] = v
                    yield av, kwargs, p2

        if d in s.contracts and not (isinstance(n.func, ast.Name) and p.has(n.func.id) and p.lookup(n.func.id) is not s.contracts[d]):
            for av, kw, p1 in args_then(p):
                yield from s.apply(s.contracts[d], av, kw, p1, n)
            return
        if isinstance(n.func, ast.Name) and not p.has(n.func.id) and n.func.id in s.BUILTINS and not (s.module is not None and n.func.id in vars(s.module)):
            yield from getattr(s, "bi_" + n.func.id)(n, p)
            return
        if isinstance(n.func, ast.Attribute):
            # method call on a value bound to a plain name: list mutators need the binding
            for o, p1 in s.ev(n.func.value, p):
                if isinstance(o, SContract):
                    raise OutOfSubset("attribute of a contract")
                if isinstance(o, (SSeq, STup, SStr, SDict, SSet, SMap, SZip)):
                    for av, kw, p2 in args_then(p1):
                        yield from s.method(n, o, n.func.attr, av, kw, p2)
                    continue
                if isinstance(o, SObj):
                    for av, kw, p2 in args_then(p1):
                        if n.func.attr in MUTATORS:
                            p2.ghost.setdefault("stores", []).append((n.lineno, ast.unparse(n)))
                            s.abstracted.add(f"mutator call .{n.func.attr}() on an opaque object (logged as a store)")
                        yield s.abstract_call("meth_" + n.func.attr, [o] + av, kw, p2), p2
                    continue
                f = s.getattr(o, n.func.attr, p1, n.lineno)
                for av, kw, p2 in args_then(p1):
                    yield from s.apply(f, av, kw, p2, n)
            return
        for f, p1 in s.ev(n.func, p):
            for av, kw, p2 in args_then(p1):
                yield from s.apply(f, av, kw, p2, n)

    def apply(s, f, av, kw, p, n):
        if isinstance(f, SContract):
            r = f.fn(s, p, av, kw)
            if r is None:
                return
            if isinstance(r, list):
                yield from r
            else:
                yield r, p
            return
        if isinstance(f, SFunc):
            yield from s.inline(f, av, kw, p, n)
            return
        if isinstance(f, SConc) and callable(f.v) and getattr(f.v, "__name__", "") == "fullmatch" and hasattr(getattr(f.v, "__self__", None), "pattern") and len(av) == 1 and isinstance(av[0], (SStr, SConc)):
            from .strings import regex_to_z3

            a = av[0].t if isinstance(av[0], SStr) else z3.StringVal(av[0].v)
            yield SBool(z3.InRe(a, regex_to_z3(f.v.__self__.pattern))), p
            return
        if isinstance(f, SConc) and callable(f.v):
            conc = all(isinstance(a, SConc) for a in av) and all(isinstance(a, SConc) for a in kw.values())
            name = getattr(f.v, "__qualname__", getattr(f.v, "__name__", repr(f.v)))
            if conc and (getattr(f.v, "__module__", None) in ("builtins", "re", "math") or isinstance(f.v, type)):
                try:
                    yield s.lift(f.v(*[a.v for a in av], **{k: v.v for k, v in kw.items()})), p
                    return
                except Exception as e:  # concrete evaluation raises: exceptional exit
                    q = s.may_raise(type(e).__name__, z3.BoolVal(False), p, f"line{n.lineno}", n.lineno)
                    return
            yield s.abstract_call(name, av, kw, p), p
            return
        if isinstance(f, SObj):
            yield s.abstract_call("obj", [f] + av, kw, p), p
            return
        raise OutOfSubset(f"call of {f!r} at line {n.lineno}")

    def inline(s, f, av, kw, p, n):
        node = f.node
        a = node.args
        if a.vararg or a.kwarg or a.posonlyargs:
            raise OutOfSubset("inlined function with *args/**kwargs")
        names = [x.arg for x in a.args]
        loc = {}
        for nm, v in zip(names, av):
            loc[nm] = v
        for nm, v in kw.items():
            loc[nm] = v
        ndef = len(a.defaults)
        for nm, dflt in zip(names[len(names) - ndef :], a.defaults):
            if nm not in loc:
                (dv, _), = list(s.ev(dflt, p))
                loc[nm] = dv
        for ka, dflt in zip(a.kwonlyargs, a.kw_defaults):
            if ka.arg not in loc:
                if dflt is None:
                    raise OutOfSubset("missing keyword-only argument")
                (dv, _), = list(s.ev(dflt, p))
                loc[ka.arg] = dv
        if set(loc) != set(names) | {k.arg for k in a.kwonlyargs}:
            raise OutOfSubset(f"argument binding for inlined {node.name}")
        q = p.fork()
        depth = len(q.frames)
        q.frames.append(loc)
        s.stack_depth = getattr(s, "stack_depth", 0) + 1
        if s.stack_depth > 12:
            s.stack_depth -= 1
            raise OutOfSubset(f"recursion in inlined {node.name} (needs its own contract)")
        try:
            outs = s.exec_block(node.body, [q])
        finally:
            s.stack_depth -= 1
        for out, r in outs:
            r.frames = r.frames[:depth]
            if out is None:
                yield SConc(None), r
            elif isinstance(out, Return):
                yield out.v, r
            elif isinstance(out, Raise):
                s._exc[-1].append((out, r))
            else:
                raise OutOfSubset("break/continue escaping a function")

    # ------------------------------------------------------------------ methods on modelled values
    def rebind(s, n, p, newv):
        tgt = n.func.value
        if isinstance(tgt, ast.Name):
            p.bind(tgt.id, newv, nonlocal_=not (tgt.id in p.frames[-1]))
        elif isinstance(tgt, ast.Attribute) and isinstance(tgt.value, ast.Name) and isinstance(p.lookup(tgt.value.id), SRec):
            o = p.lookup(tgt.value.id)
            f = dict(o.f)
            f[tgt.attr] = newv
            nr = SRec(o.cls, **f)
            nr.isa = getattr(o, "isa", (o.cls,))
            p.bind(tgt.value.id, nr, nonlocal_=not (tgt.value.id in p.frames[-1]))
        else:
            raise OutOfSubset("mutation of a list not held in a plain name or a record field")

    def method(s, n, o, attr, av, kw, p):
        if isinstance(o, (SSeq, STup)) and attr in ("append", "insert", "extend", "pop"):
            if isinstance(o, STup) and attr == "append":
                s.rebind(n, p, STup(o.items + [av[0]], "list"))
                yield SConc(None), p
                return
            if isinstance(o, STup) and attr == "extend" and isinstance(av[0], STup):
                s.rebind(n, p, STup(o.items + av[0].items, "list"))
                yield SConc(None), p
                return
            if isinstance(o, STup) and attr == "pop" and not av:
                q = s.may_raise("IndexError", z3.BoolVal(len(o.items) > 0), p, f"pop:line{n.lineno}", n.lineno)
                if q is not None and o.items:
                    s.rebind(n, q, STup(o.items[:-1], "list"))
                    yield o.items[-1], q
                return
            if attr == "append" and not hasattr(av[0], "kind"):
                s.abstracted.add("list of records/tuples with symbolic length (opaque; appends are logged)")
                p.ghost.setdefault("appends", []).append((n.lineno, ast.unparse(n.func.value), av[0]))
                s.rebind(n, p, SObj(fresh("opaque_list", Obj)))
                yield SConc(None), p
                return
            sq = s.as_seq(o, p, ek=getattr(av[0], "kind", None) if av else None)
            if attr == "append":
                v = av[0]
                if sq.ek != v.kind:
                    raise OutOfSubset("append changes element kind")
                s.rebind(n, p, SSeq(z3.Store(sq.arr, sq.n, v.t), sq.n + 1, sq.ek, "list"))
                yield SConc(None), p
            elif attr == "extend":
                s.rebind(n, p, s.concat(sq, s.as_seq(av[0], p), p))
                yield SConc(None), p
            elif attr == "insert":
                i, v = av[0].t, av[1]
                # list.insert clamps the index
                i = z3.If(i < 0, z3.If(i + sq.n < 0, 0, i + sq.n), z3.If(i > sq.n, sq.n, i))
                i = z3.simplify(i)
                r = fresh("ins", z3.ArraySort(I, sort_of(sq.ek)))
                p.pc.append(s.forall(0, sq.n + 1, lambda k: z3.Select(r, k) == z3.If(k < i, z3.Select(sq.arr, k), z3.If(k == i, v.t, z3.Select(sq.arr, k - 1)))))
                s.rebind(n, p, SSeq(r, sq.n + 1, sq.ek, "list"))
                yield SConc(None), p
            elif attr == "pop":
                if av:
                    raise OutOfSubset("pop(i)")
                q = s.may_raise("IndexError", sq.n > 0, p, f"pop:line{n.lineno}", n.lineno)
                if q is not None:
                    s.rebind(n, q, SSeq(sq.arr, sq.n - 1, sq.ek, "list"))
                    yield sq.at(sq.n - 1), q
            return
        if isinstance(o, (SSeq, STup)) and attr == "remove" and o.pykind == "list":
            sq = s.as_seq(o, p, ek=getattr(av[0], "kind", None))
            v = av[0]
            if getattr(v, "kind", None) != sq.ek:
                raise OutOfSubset("remove of another element kind")
            found = s.exists(0, sq.n, lambda k: z3.Select(sq.arr, k) == v.t)
            q = s.may_raise("ValueError", found, p, f"remove:line{n.lineno}", n.lineno)
            if q is not None:
                r = fresh("ridx")
                q.pc.append(z3.And(0 <= r, r < sq.n, z3.Select(sq.arr, r) == v.t, s.forall(0, r, lambda k: z3.Select(sq.arr, k) != v.t)))
                na = fresh("rem", z3.ArraySort(I, sort_of(sq.ek)))
                q.pc.append(s.forall(0, sq.n - 1, lambda k: z3.Select(na, k) == z3.If(k < r, z3.Select(sq.arr, k), z3.Select(sq.arr, k + 1))))
                s.rebind(n, q, SSeq(na, sq.n - 1, sq.ek, "list"))
                yield SConc(None), q
            return
        if isinstance(o, (SSeq, STup)) and attr == "index":
            sq = s.as_seq(o, p)
            v = av[0]
            r = fresh("idx")
            found = s.exists(0, sq.n, lambda k: z3.Select(sq.arr, k) == v.t)
            q = s.may_raise("ValueError", found, p, f"index:line{n.lineno}", n.lineno)
            if q is not None:
                q.pc.append(z3.And(0 <= r, r < sq.n, z3.Select(sq.arr, r) == v.t, s.forall(0, r, lambda k: z3.Select(sq.arr, k) != v.t)))
                yield SInt(r), q
            return
        if isinstance(o, SSet) and attr == "issubset" and len(av) == 1 and isinstance(av[0], SSet):
            b = av[0]
            if o.member is None:
                yield SBool(True), p
            elif b.member is None:
                x = fresh("sx", sort_of(o.ek))
                yield SBool(z3.Not(z3.Exists([x], z3.Select(o.member, x)))), p
            else:
                if o.ek != b.ek:
                    raise OutOfSubset("issubset between sets of different element kinds")
                x = fresh("sx", sort_of(o.ek))
                yield SBool(z3.ForAll([x], z3.Implies(z3.Select(o.member, x), z3.Select(b.member, x)))), p
            return
        if isinstance(o, SSet) and attr == "pop" and not av:
            if o.member is None:
                s.may_raise("KeyError", z3.BoolVal(False), p, f"pop:line{n.lineno}", n.lineno)
                return
            x = fresh("popped", sort_of(o.ek))
            y = z3.Const("setx!", sort_of(o.ek))
            ex = fresh("px", sort_of(o.ek))
            q = s.may_raise("KeyError", z3.Exists([ex], z3.Select(o.member, ex)), p, f"pop:line{n.lineno}", n.lineno)
            if q is not None:
                q.pc.append(z3.Select(o.member, x))
                s.rebind(n, q, SSet(z3.Lambda([y], z3.And(z3.Select(o.member, y), y != x)), o.ek))
                yield wrap(x, o.ek), q
            return
        if isinstance(o, SSet) and attr in ("update", "add"):
            if attr == "add":
                v = av[0]
                if getattr(v, "kind", None) not in ("int", "obj"):
                    raise OutOfSubset("set.add of a non int/obj value")
                ek = v.kind
                x = z3.Const("setx!", sort_of(ek))
                other = z3.Lambda([x], x == v.t)
            else:
                v = av[0]
                if isinstance(v, STup) and not v.items:
                    yield SConc(None), p  # update with an empty literal: no change
                    return
                if isinstance(v, SSet):
                    ek, other = v.ek, v.member
                else:
                    sq = s.as_seq(v, p, ek=o.ek)
                    ek = sq.ek
                    x = z3.Const("setx!", sort_of(ek))
                    k = fresh("sk")
                    other = z3.Lambda([x], z3.Exists([k], z3.And(0 <= k, k < sq.n, z3.Select(sq.arr, k) == x)))
            if o.member is None:
                new = SSet(other, ek)
            else:
                if o.ek != ek:
                    raise OutOfSubset("set update with another element kind")
                x = z3.Const("setx!", sort_of(ek))
                new = SSet(z3.Lambda([x], z3.Or(z3.Select(o.member, x), z3.Select(other, x))), ek)
            s.rebind(n, p, new)
            yield SConc(None), p
            return
        if isinstance(o, SMap) and attr == "get":
            k = av[0]
            if getattr(k, "kind", None) != o.kk:
                raise OutOfSubset("symbolic dict .get with a key of another kind")
            d = av[1] if len(av) > 1 else None
            if d is None or getattr(d, "kind", None) != o.vk:
                raise OutOfSubset("symbolic dict .get without a default of the value kind")
            yield wrap(z3.If(z3.Select(o.has, k.t), z3.Select(o.val, k.t), d.t), o.vk), p
            return
        if isinstance(o, SZip) and attr == "append":
            v = av[0]
            if not isinstance(v, STup) or len(v.items) != len(o.eks) or any(getattr(it, "kind", None) != ek for it, ek in zip(v.items, o.eks)):
                raise OutOfSubset("append of a differently shaped tuple to a list of tuples")
            s.rebind(n, p, SZip([z3.Store(a, o.n, it.t) for a, it in zip(o.arrs, v.items)], o.n + 1, o.eks, o.pykind))
            yield SConc(None), p
            return
        if isinstance(o, SDict):
            if attr == "pop" and av and isinstance(av[0], SConc):
                k = av[0].v
                if k in o.d:
                    d = dict(o.d)
                    v = d.pop(k)
                    s.rebind(n, p, SDict(d))
                    yield v, p
                elif len(av) > 1:
                    yield av[1], p
                else:
                    s.may_raise("KeyError", z3.BoolVal(False), p, f"pop:line{n.lineno}", n.lineno)
                return
            if attr == "get":
                k = av[0]
                if not isinstance(k, SConc):
                    raise OutOfSubset("dict.get with symbolic key")
                yield o.d.get(k.v, av[1] if len(av) > 1 else SConc(None)), p
                return
            if attr == "items":
                yield STup([STup([s.lift(k), v]) for k, v in o.d.items()]), p
                return
            if attr == "keys":
                yield STup([s.lift(k) for k in o.d]), p
                return
            if attr == "values":
                yield STup(list(o.d.values())), p
                return
        if isinstance(o, SStr):
            yield from s.str_method(n, o, attr, av, p)
            return
        raise OutOfSubset(f"method .{attr} on {o!r}")

    def str_method(s, n, o, attr, av, p):
        def st(v):
            return v.t if isinstance(v, SStr) else z3.StringVal(v.v)

        if attr == "startswith":
            yield SBool(z3.PrefixOf(st(av[0]), o.t)), p
        elif attr == "endswith":
            yield SBool(z3.SuffixOf(st(av[0]), o.t)), p
        elif attr in ("isdigit", "isdecimal"):
            from .strings import char_class

            yield SBool(z3.InRe(o.t, z3.Plus(char_class(attr)))), p
        elif attr == "strip" and not av:
            from .strings import strip_axioms

            r = SStr(fresh("strip", S))
            p.pc.append(strip_axioms(o.t, r.t))
            yield r, p
        else:
            raise OutOfSubset(f"str.{attr}")

    # ------------------------------------------------------------------ builtins
    BUILTINS = {"len", "range", "tuple", "list", "sorted", "isinstance", "all", "any", "max", "min", "id", "int", "set", "enumerate", "zip", "reversed", "str", "type", "sum", "hasattr"}

    def bi_len(s, n, p):
        for v, p1 in s.ev(n.args[0], p):
            if isinstance(v, (SSeq, STup, SZip)):
                yield SInt(v.n), p1
            elif isinstance(v, SStr):
                yield SInt(z3.Length(v.t)), p1
            elif isinstance(v, SDict):
                yield SInt(len(v.d)), p1
            elif isinstance(v, SObj):
                ln = uf("seq_len", Obj, I)(v.t)
                p1.pc.append(ln >= 0)
                s.abstracted.add("len() of an opaque object")
                yield SInt(ln), p1
            elif isinstance(v, SConc):
                yield SInt(len(v.v)), p1
            elif isinstance(v, SSet):
                c = fresh("card")
                p1.pc.append(c >= 0)
                if v.member is None:
                    p1.pc.append(c == 0)
                else:
                    x, y = fresh("cx", sort_of(v.ek)), fresh("cy", sort_of(v.ek))
                    p1.pc.append((c == 0) == z3.Not(z3.Exists([x], z3.Select(v.member, x))))
                    p1.pc.append((c == 1) == z3.Exists([x], z3.And(z3.Select(v.member, x), z3.ForAll([y], z3.Implies(z3.Select(v.member, y), y == x)))))
                s.abstracted.add("len() of a set: a non-negative integer that is 0 exactly for the empty set and 1 exactly for a singleton (no further cardinality reasoning)")
                yield SInt(c), p1
            elif isinstance(v, SRec) and v.cls == "val":
                ln = z3.Int(f"len_rec[{id(v)}]")
                p1.pc.append(ln >= 0)
                s.abstracted.add("len() of a provenance record (uninterpreted non-negative integer)")
                yield SInt(ln), p1
            else:
                raise OutOfSubset("len")

    def bi_range(s, n, p):
        for av, p1 in s.ev_list(n.args, p):
            if len(av) == 1:
                lo, hi = z3.IntVal(0), av[0].t
            elif len(av) == 2:
                lo, hi = av[0].t, av[1].t
            else:
                raise OutOfSubset("range with step")
            ln = z3.simplify(z3.If(hi > lo, hi - lo, 0))
            lo = z3.simplify(lo)
            if z3.is_int_value(ln) and ln.as_long() <= 12:
                yield STup([SInt(z3.simplify(lo + k)) for k in range(ln.as_long())], "range"), p1
            else:
                vi = z3.Int("ri!")
                r = SSeq(z3.Lambda([vi], lo + vi), ln, "int", "range")
                r.range_of = (lo, z3.simplify(lo + ln))  # membership in a range is decided arithmetically (no quantifier)
                yield r, p1

    def bi_tuple(s, n, p):
        if not n.args:
            yield STup([], "tuple"), p
            return
        for v, p1 in s.ev(n.args[0], p):
            if isinstance(v, STup):
                yield STup(v.items, "tuple"), p1
            else:
                sq = s.as_seq(v, p1)
                r = SSeq(sq.arr, sq.n, sq.ek, "tuple")
                if hasattr(sq, "filter_of"):
                    r.filter_of = sq.filter_of
                yield r, p1

    def bi_list(s, n, p):
        if not n.args:
            yield STup([], "list"), p
            return
        for v, p1 in s.ev(n.args[0], p):
            if isinstance(v, STup):
                yield STup(v.items, "list"), p1
            else:
                sq = s.as_seq(v, p1)
                r = SSeq(sq.arr, sq.n, sq.ek, "list")
                if hasattr(sq, "range_of"):
                    r.range_of = sq.range_of
                yield r, p1

    def bi_str(s, n, p):
        for v, p1 in s.ev(n.args[0], p):
            if isinstance(v, (SStr, SConc)) and (isinstance(v, SStr) or isinstance(v.v, str)):
                yield v, p1
            else:
                yield SConc("<str()>"), p1

    def bi_type(s, n, p):
        for v, p1 in s.ev(n.args[0], p):
            if isinstance(v, SObj):
                s.abstracted.add("type() of an opaque object")
                yield SObj(uf("type_of", Obj, Obj)(v.t)), p1
            elif isinstance(v, SConc):
                yield SConc(type(v.v)), p1
            else:
                s.abstracted.add("type() of a modelled value (opaque)")
                yield SConc(object), p1

    def bi_id(s, n, p):
        for v, p1 in s.ev(n.args[0], p):
            if not isinstance(v, SObj):
                raise OutOfSubset("id() of a non-object")
            idf = uf("id_of", Obj, I)
            if "id-injective" not in s.assumed:
                a, b = z3.Consts("ida idb", Obj)
                s.axioms.append(z3.ForAll([a, b], z3.Implies(idf(a) == idf(b), a == b)))
                s.assumed.add("id-injective")
            yield SInt(idf(v.t)), p1

    def bi_sorted(s, n, p):
        rev = False
        for kw in n.keywords:
            if kw.arg == "reverse" and isinstance(kw.value, ast.Constant) and isinstance(kw.value.value, bool):
                rev = kw.value.value
            else:
                raise OutOfSubset("sorted() with key= / non-constant reverse=")
        if len(n.args) != 1:
            raise OutOfSubset("sorted() arguments")
        for v, p1 in s._sorted_asc(n, p):
            if not rev:
                yield v, p1
            else:
                r = fresh("rev", z3.ArraySort(I, I))
                p1.pc.append(s.forall(0, v.n, lambda k: z3.Select(r, k) == z3.Select(v.arr, v.n - 1 - k)))
                yield SSeq(r, v.n, "int", "list"), p1

    def _sorted_asc(s, n, p):
        for v, p1 in s.ev(n.args[0], p):
            a = s.as_seq(v, p1)
            if a.ek != "int":
                raise OutOfSubset("sorted of non-int")
            nc = z3.simplify(a.n)
            # already ascending? then sorted(a) == a (decided by a side query)
            i, j = fresh("i"), fresh("j")
            q = z3.Solver()
            q.set("rlimit", 20000000)
            q.add(*s.axioms)
            q.add(*p1.pc)
            q.add(0 <= i, i < j, j < a.n, z3.Select(a.arr, i) > z3.Select(a.arr, j))
            if q.check() == z3.unsat:
                yield SSeq(a.arr, a.n, "int", "list"), p1
                continue
            r = fresh("srt", z3.ArraySort(I, I))
            if z3.is_int_value(nc) and nc.as_long() <= 6:
                # concrete length: permutation expressed by selector variables (quantifier-free)
                m = nc.as_long()
                sel = [fresh("perm") for _ in range(m)]
                p1.pc.append(z3.And(*[z3.And(0 <= x, x < m) for x in sel]) if m else z3.BoolVal(True))
                if m:
                    p1.pc.append(z3.Distinct(*sel) if m > 1 else z3.BoolVal(True))
                    p1.pc.append(z3.And(*[z3.Select(r, k) == z3.Select(a.arr, sel[k]) for k in range(m)]))
                    p1.pc.append(z3.And(*[z3.Select(r, k) <= z3.Select(r, k + 1) for k in range(m - 1)]) if m > 1 else z3.BoolVal(True))
            else:
                pi, ip = fresh_fun("pi", I, I), fresh_fun("ip", I, I)
                p1.pc.append(z3.ForAll([i, j], z3.Implies(z3.And(0 <= i, i < j, j < a.n), z3.Select(r, i) <= z3.Select(r, j))))
                p1.pc.append(z3.ForAll([i], z3.Implies(z3.And(0 <= i, i < a.n), z3.And(0 <= pi(i), pi(i) < a.n, z3.Select(r, i) == z3.Select(a.arr, pi(i)), ip(pi(i)) == i))))
                p1.pc.append(z3.ForAll([i], z3.Implies(z3.And(0 <= i, i < a.n), z3.And(0 <= ip(i), ip(i) < a.n, pi(ip(i)) == i))))
            yield SSeq(r, a.n, "int", "list"), p1

    def isinstance_of(s, o, cls_node, p):
        parts = class_parts(cls_node)
        res = []
        for c in parts:
            txt = ast.unparse(c).replace(" ", "")
            base = txt.split(".")[-1]
            if isinstance(o, SInt):
                res.append(z3.BoolVal(base in ("int", "object", "integer") and txt in ("int", "object")))
            elif isinstance(o, SBool):
                res.append(z3.BoolVal(txt in ("int", "bool", "object")))
            elif isinstance(o, SStr):
                res.append(z3.BoolVal(txt in ("str", "object")))
            elif isinstance(o, (SSeq, STup)):
                res.append(z3.BoolVal(txt == o.pykind or txt == "object"))
            elif isinstance(o, SDict):
                res.append(z3.BoolVal(txt in ("dict", "object")))
            elif isinstance(o, SConc):
                try:
                    cls = eval(compile(ast.Expression(c), "<cls>", "eval"), vars(s.module) if s.module else {})
                    res.append(z3.BoolVal(isinstance(o.v, cls)))
                except Exception:
                    raise OutOfSubset(f"isinstance class {txt}")
            elif isinstance(o, SObj):
                s.abstracted.add(f"isinstance(·, {txt})")
                res.append(uf("is_" + txt, Obj, B)(o.t))
            elif isinstance(o, SRec):
                res.append(z3.BoolVal(txt in getattr(o, "isa", (o.cls,)) or base in getattr(o, "isa", (o.cls,))))
            else:
                raise OutOfSubset(f"isinstance of {o!r}")
        return z3.Or(*res) if len(res) > 1 else res[0]

    def bi_isinstance(s, n, p):
        for o, p1 in s.ev(n.args[0], p):
            yield SBool(s.isinstance_of(o, n.args[1], p1)), p1

    def _quant(s, n, p, is_all):
        for v, p1 in s.ev(n.args[0], p):
            if isinstance(v, STup):
                ts = [s.truth(x) for x in v.items]
                yield SBool((z3.And(*ts) if is_all else z3.Or(*ts)) if ts else z3.BoolVal(is_all)), p1
            else:
                sq = s.as_seq(v, p1)
                f = (lambda k: s.truth(sq.at(k)))
                yield SBool(s.forall(0, sq.n, f) if is_all else s.exists(0, sq.n, f)), p1

    def bi_all(s, n, p):
        yield from s._quant(n, p, True)

    def bi_any(s, n, p):
        yield from s._quant(n, p, False)

    def _extremum(s, n, p, is_max):
        if len(n.args) >= 2 and not n.keywords:
            for av, p1 in s.ev_list(n.args, p):
                if not all(isinstance(a, (SInt, SBool)) for a in av):
                    raise OutOfSubset("max/min of non-int arguments")
                r = av[0].t
                for a in av[1:]:
                    r = z3.If((a.t >= r) if is_max else (a.t <= r), a.t if True else r, r) if False else (z3.If(a.t > r, a.t, r) if is_max else z3.If(a.t < r, a.t, r))
                yield SInt(r), p1
            return
        if len(n.args) != 1 or n.keywords:
            raise OutOfSubset("max/min with several arguments or default")
        for v, p1 in s.ev(n.args[0], p):
            sq = s.as_seq(v, p1)
            if sq.ek != "int":
                raise OutOfSubset("max/min of non-int")
            q = s.may_raise("ValueError", sq.n > 0, p1, f"{'max' if is_max else 'min'}() of empty sequence:line{n.lineno}", n.lineno)
            if q is None:
                continue
            m = fresh("max" if is_max else "min")
            q.pc.append(s.forall(0, sq.n, lambda k: (z3.Select(sq.arr, k) <= m) if is_max else (z3.Select(sq.arr, k) >= m)))
            q.pc.append(s.exists(0, sq.n, lambda k: z3.Select(sq.arr, k) == m))
            yield SInt(m), q

    def bi_max(s, n, p):
        yield from s._extremum(n, p, True)

    def bi_min(s, n, p):
        yield from s._extremum(n, p, False)

    def bi_sum(s, n, p):
        """sum(int sequence) = seqsum(arr, n): uninterpreted, with its recursive definition as axioms (seqsum(a,0)=0, seqsum(a,k+1)=seqsum(a,k)+a[k])"""
        if len(n.args) != 1 or n.keywords:
            raise OutOfSubset("sum() with start")
        for v, p1 in s.ev(n.args[0], p):
            if isinstance(v, STup):
                r = z3.IntVal(0)
                for it in v.items:
                    if not isinstance(it, (SInt, SBool)):
                        raise OutOfSubset("sum of non-int")
                    r = r + (it.t if isinstance(it, SInt) else z3.If(it.t, 1, 0))
                yield SInt(r), p1
                continue
            sq = s.as_seq(v, p1)
            if sq.ek != "int":
                raise OutOfSubset("sum of non-int")
            yield SInt(s.seqsum(sq.arr, sq.n)), p1

    def seqsum(s, arr, n):
        f = uf("seqsum", z3.ArraySort(I, I), I, I)
        if not getattr(s, "_seqsum_axioms", False):
            s._seqsum_axioms = True
            a, k = z3.Const("ssa", z3.ArraySort(I, I)), z3.Int("ssk")
            s.axioms += [z3.ForAll([a], f(a, 0) == 0), z3.ForAll([a, k], z3.Implies(k >= 0, f(a, k + 1) == f(a, k) + z3.Select(a, k)))]
        return f(arr, n)

    def bi_int(s, n, p):
        for v, p1 in s.ev(n.args[0], p):
            if isinstance(v, SInt):
                yield v, p1
            elif isinstance(v, SBool):
                yield SInt(z3.If(v.t, 1, 0)), p1
            elif isinstance(v, SStr):
                from .strings import char_class

                ok = z3.InRe(v.t, z3.Plus(char_class("isdecimal")))  # int() accepts exactly Unicode decimals (after strip; sign/underscore forms excluded by callers' guards)
                q = s.may_raise("ValueError", ok, p1, f"int(str):line{n.lineno}", n.lineno)
                if q is not None:
                    s.abstracted.add("numeric value of int(str) (uninterpreted)")
                    yield SInt(uf("int_of_str", S, I)(v.t)), q
            else:
                raise OutOfSubset("int()")

    def bi_hasattr(s, n, p):
        for av, p1 in s.ev_list(n.args, p):
            o, a = av
            if not (isinstance(a, SConc) and isinstance(a.v, str)):
                raise OutOfSubset("hasattr with a non-constant name")
            if isinstance(o, SRec):
                yield SBool(a.v in o.f), p1
            elif isinstance(o, SObj):
                s.abstracted.add(f"hasattr(·, {a.v!r})")
                yield SBool(uf("has_" + a.v, Obj, B)(o.t)), p1
            elif isinstance(o, (SInt, SBool)):
                yield SBool(hasattr(0, a.v)), p1
            elif isinstance(o, SConc):
                yield SBool(hasattr(o.v, a.v)), p1
            else:
                raise OutOfSubset(f"hasattr on {o!r}")

    def bi_set(s, n, p):
        """set(seq) for homogeneous int/obj sequences: characteristic predicate (membership only; no cardinality)"""
        if not n.args:
            yield SSet(None, None), p  # empty set, element kind fixed by the first update
            return
        for v, p1 in s.ev(n.args[0], p):
            if isinstance(v, SSet):
                yield v, p1
                continue
            sq = s.as_seq(v, p1)
            if sq.ek not in ("int", "obj"):
                raise OutOfSubset("set() of non int/obj elements")
            x = z3.Const("setx!", sort_of(sq.ek))
            k = fresh("sk")
            mem = z3.Lambda([x], z3.Exists([k], z3.And(0 <= k, k < sq.n, z3.Select(sq.arr, k) == x)))
            yield SSet(mem, sq.ek), p1

    def bi_enumerate(s, n, p):
        raise OutOfSubset("enumerate outside for")

    bi_zip = bi_reversed = bi_enumerate

    # ------------------------------------------------------------------ statements
    def exec_block(s, stmts, paths):
        live = [(None, p) for p in paths]
        for st in stmts:
            nxt = []
            for out, p in live:
                if out is not None:
                    nxt.append((out, p))
                else:
                    nxt.extend(s.exec_stmt(st, p))
            live = nxt
        return live

    def exec_stmt(s, st, p):
        m = getattr(s, "st_" + type(st).__name__, None)
        if m is None:
            raise OutOfSubset(f"statement {type(st).__name__} at line {st.lineno}")
        # ghost code of the sidecar contract (lemma invocations: assert the premises as obligations, then assume the conclusion), attached
        # in front of the statement whose source text starts with the given anchor
        for anchor, fn in getattr(s, "ghost_before", ()):
            if ast.unparse(st).startswith(anchor):
                fn(s, p)
        s._exc.append([])
        try:
            outs = list(m(st, p))
        finally:
            exc = s._exc.pop()
        return outs + exc

    def assign(s, target, v, p):
        if isinstance(target, ast.Name):
            hint = getattr(s, "local_types", {}).get(target.id)
            if hint and isinstance(v, SDict) and not v.d and hint[0] == "map":
                v = SMap.empty(hint[1], hint[2])
            elif hint and isinstance(v, STup) and not v.items and hint[0] == "zip":
                v = SZip.empty(hint[1])
            elif hint and isinstance(v, SSet) and v.member is None and hint[0] == "set":
                v = SSet(z3.K(sort_of(hint[1]), z3.BoolVal(False)), hint[1])
            elif hint and isinstance(v, STup) and not v.items and hint[0] == "list":
                v = SSeq(fresh("empty", z3.ArraySort(I, sort_of(hint[1]))), 0, hint[1], "list")
            p.bind(target.id, v)
        elif isinstance(target, (ast.Tuple, ast.List)):
            if any(isinstance(t, ast.Starred) for t in target.elts):
                raise OutOfSubset("starred unpacking")
            k = len(target.elts)
            if isinstance(v, STup):
                q = s.may_raise("ValueError", z3.BoolVal(len(v.items) == k), p, f"unpack:line{target.lineno}", target.lineno)
                if q is None or len(v.items) != k:
                    return False
                for t, it in zip(target.elts, v.items):
                    s.assign(t, it, p)
            else:
                sq = s.as_seq(v, p)
                q = s.may_raise("ValueError", sq.n == k, p, f"unpack:line{target.lineno}", target.lineno)
                if q is None:
                    return False
                for i, t in enumerate(target.elts):
                    s.assign(t, sq.at(z3.IntVal(i)), p)
        elif isinstance(target, ast.Subscript):
            (o, _), = list(s.ev(target.value, p))
            (k, _), = list(s.ev(target.slice, p))
            if isinstance(o, (SSeq, STup)) and o.pykind == "list" and isinstance(target.value, ast.Name) and isinstance(k, (SInt, SConc)) and not isinstance(target.slice, ast.Slice):
                sq = s.as_seq(o, p, ek=getattr(v, "kind", None))
                if getattr(v, "kind", None) != sq.ek:
                    raise OutOfSubset("item store changes the element kind")
                kt = k.t if isinstance(k, SInt) else z3.IntVal(int(k.v))
                i, q = s.index(sq, kt, p, f"store:line{target.lineno}", target.lineno)
                if q is None:
                    return False
                p.bind(target.value.id, SSeq(z3.Store(sq.arr, i, v.t), sq.n, sq.ek, "list"))
            elif isinstance(o, SMap) and isinstance(target.value, ast.Name):
                if getattr(k, "kind", None) != o.kk or getattr(v, "kind", None) != o.vk:
                    raise OutOfSubset("store of another key/value kind into a symbolic dict")
                p.bind(target.value.id, SMap(z3.Store(o.has, k.t, z3.BoolVal(True)), z3.Store(o.val, k.t, v.t), o.kk, o.vk))
            elif isinstance(o, SDict) and isinstance(k, SConc) and isinstance(target.value, ast.Name):
                d = dict(o.d)
                d[k.v] = v
                p.bind(target.value.id, SDict(d))
            elif isinstance(o, SObj):
                p.ghost.setdefault("stores", []).append((target.lineno, ast.unparse(target), o, k, v))
                s.abstracted.add("item store on an opaque object (logged, not modelled for later reads)")
            else:
                raise OutOfSubset("subscript store")
        elif isinstance(target, ast.Attribute):
            (o, _), = list(s.ev(target.value, p))
            if isinstance(o, SRec):
                f = dict(o.f)
                f[target.attr] = v
                if isinstance(target.value, ast.Name):
                    nr = SRec(o.cls, **f)
                    nr.isa = getattr(o, "isa", (o.cls,))
                    p.bind(target.value.id, nr)
                else:
                    raise OutOfSubset("attribute store")
            elif isinstance(o, SObj):
                p.ghost.setdefault("stores", []).append((target.lineno, ast.unparse(target), o, None, v))
                s.abstracted.add("attribute store on an opaque object (logged, not modelled for later reads)")
            else:
                raise OutOfSubset("attribute store")
        else:
            raise OutOfSubset("assignment target")
        return True

    def st_Assign(s, st, p):
        for v, p1 in s.ev(st.value, p):
            ok = True
            for t in st.targets:
                ok = s.assign(t, v, p1) and ok
            if ok:
                yield None, p1

    def st_AnnAssign(s, st, p):
        if st.value is None:
            yield None, p
            return
        for v, p1 in s.ev(st.value, p):
            if s.assign(st.target, v, p1):
                yield None, p1

    def st_AugAssign(s, st, p):
        load = ast.copy_location(ast.parse(ast.unparse(st.target), mode="eval").body, st)
        for cur, p1 in s.ev(load, p):
            for v, p2 in s.ev(st.value, p1):
                if s.assign(st.target, s.binop(st.op, cur, v, p2, st.lineno), p2):
                    yield None, p2

    def st_FunctionDef(s, st, p):
        p.bind(st.name, SFunc(st))
        yield None, p

    def st_Delete(s, st, p):
        paths = [p]
        for tg in st.targets:
            nxt = []
            for q in paths:
                if not (isinstance(tg, ast.Subscript) and isinstance(tg.value, ast.Name) and not isinstance(tg.slice, ast.Slice)):
                    raise OutOfSubset("del of something other than list[index]")
                o = q.lookup(tg.value.id)
                for idx, q1 in s.ev(tg.slice, q):
                    if isinstance(o, SDict) and isinstance(idx, SConc):
                        q2 = s.may_raise("KeyError", z3.BoolVal(idx.v in o.d), q1, f"del:line{st.lineno}", st.lineno)
                        if q2 is not None and idx.v in o.d:
                            d = dict(o.d)
                            del d[idx.v]
                            q2.bind(tg.value.id, SDict(d))
                            nxt.append(q2)
                        continue
                    sq = s.as_seq(o, q1)
                    i, q2 = s.index(sq, idx.t, q1, f"del:line{st.lineno}", st.lineno)
                    if q2 is None:
                        continue
                    r = fresh("del", z3.ArraySort(I, sort_of(sq.ek)))
                    q2.pc.append(s.forall(0, sq.n - 1, lambda k: z3.Select(r, k) == z3.If(k < i, z3.Select(sq.arr, k), z3.Select(sq.arr, k + 1))))
                    q2.bind(tg.value.id, SSeq(r, sq.n - 1, sq.ek, "list"), nonlocal_=not (tg.value.id in q2.frames[-1]))
                    nxt.append(q2)
            paths = nxt
        for q in paths:
            yield None, q

    def st_Nonlocal(s, st, p):
        p.frames[-1].setdefault("__nonlocal__", set())
        p.frames[-1]["__nonlocal__"] = set(p.frames[-1]["__nonlocal__"]) | set(st.names)
        yield None, p

    def st_ImportFrom(s, st, p):
        """function-level import: the imported names become opaque module/objects (attributes and isinstance classes on them are uninterpreted)"""
        for a in st.names:
            nm = a.asname or a.name.split(".")[0]
            p.bind(nm, SObj(z3.Const(f"module_{nm}", Obj)))
        s.abstracted.add("function-level import (imported names are opaque objects)")
        yield None, p

    st_Import = st_ImportFrom

    def st_Pass(s, st, p):
        yield None, p

    def st_Break(s, st, p):
        yield Break(), p

    def st_Continue(s, st, p):
        yield Continue(), p

    def st_Return(s, st, p):
        if st.value is None:
            yield Return(SConc(None)), p
            return
        for v, p1 in s.ev(st.value, p):
            yield Return(v), p1

    def st_Raise(s, st, p):
        if st.exc is None:
            raise OutOfSubset("bare raise")
        e = st.exc
        cls = ast.unparse(e.func) if isinstance(e, ast.Call) else ast.unparse(e)
        # evaluate constructor arguments (they may themselves raise)
        argn = (list(e.args) + [k.value for k in e.keywords]) if isinstance(e, ast.Call) else []
        hook = getattr(s, "on_raise", None)
        for av, p1 in s.ev_list(argn, p):
            if hook:
                hook(s, st, cls, av, p1)
            yield Raise(cls.split(".")[-1], st.lineno), p1

    def st_Assert(s, st, p):
        for v, p1 in s.ev(st.test, p):
            q = s.may_raise("AssertionError", s.truth(v), p1, f"line{st.lineno}", st.lineno)
            if q is not None:
                yield None, q

    def st_Expr(s, st, p):
        if isinstance(st.value, ast.Constant):
            yield None, p
            return
        for _, p1 in s.ev(st.value, p):
            yield None, p1

    def st_If(s, st, p):
        for c, p1 in s.ev(st.test, p):
            t = z3.simplify(s.truth(c))
            if not z3.is_false(t):
                pa = p1.fork()
                pa.pc.append(t)
                if z3.is_true(t) or s.feasible(pa):
                    yield from s.block_or_raise(st.body, pa)
            if not z3.is_true(t):
                pb = p1.fork()
                pb.pc.append(z3.Not(t))
                if z3.is_false(t) or s.feasible(pb):
                    yield from s.block_or_raise(st.orelse, pb)

    def block_or_raise(s, stmts, p):
        """a block that ends in an unconditional `raise X(...)`: if building the message leaves the subset, the block is abstracted to
        `raise X` (opt-in per kernel via eng.abstract_raise_blocks; recorded: exception-freedom of the message construction is then not proved)"""
        if not (getattr(s, "abstract_raise_blocks", False) and stmts and isinstance(stmts[-1], ast.Raise) and stmts[-1].exc is not None):
            return s.exec_block(stmts, [p])
        nob, q = len(s.obligations), p.fork()
        try:
            return s.exec_block(stmts, [q])
        except OutOfSubset as e:
            del s.obligations[nob:]
            ex = stmts[-1].exc
            cls = ast.unparse(ex.func) if isinstance(ex, ast.Call) else ast.unparse(ex)
            s.abstracted.add(f"message construction before `raise {cls}` (block abstracted to the raise; its own exception-freedom is not proved): {e}")
            return [(Raise(cls.split(".")[-1], stmts[-1].lineno), p)]

    def st_With(s, st, p):
        s.abstracted.add("with-statement context manager (enter/exit effects not modelled)")
        exprs = [i.context_expr for i in st.items]
        for _, p1 in s.ev_list(exprs, p):
            p1.ghost["with_depth"] = p1.ghost.get("with_depth", 0) + 1
            p1.ghost.setdefault("with_items", []).append([ast.unparse(e) for e in exprs])
            for out, q in s.exec_block(st.body, [p1]):
                q.ghost["with_depth"] = q.ghost.get("with_depth", 1) - 1
                q.ghost["with_items"] = list(q.ghost.get("with_items", []))[:-1]
                yield out, q

    # ---- loops ------------------------------------------------------------------------------------------------
    def assigned_names(s, stmts, p=None):
        out = set()
        for st in ast.walk(ast.Module(body=list(stmts), type_ignores=[])):
            if isinstance(st, (ast.Assign, ast.AugAssign, ast.AnnAssign, ast.For)):
                tg = st.targets if isinstance(st, ast.Assign) else [st.target]
                for t in tg:
                    for nn in ast.walk(t):
                        if isinstance(nn, ast.Name) and isinstance(nn.ctx, ast.Store):
                            out.add(nn.id)
                        if isinstance(nn, (ast.Subscript, ast.Attribute)) and isinstance(nn.value, ast.Name):
                            out.add(nn.value.id)
            if isinstance(st, ast.Call) and isinstance(st.func, ast.Attribute) and st.func.attr in MUTATORS and isinstance(st.func.value, ast.Name):
                out.add(st.func.value.id)
            if isinstance(st, ast.Call) and isinstance(st.func, ast.Name) and p is not None:
                f = p.lookup(st.func.id) if p.has(st.func.id) else None
                if isinstance(f, SFunc):
                    for inner in ast.walk(f.node):
                        if isinstance(inner, ast.Nonlocal):
                            out |= set(inner.names)
                    out |= {x for x in s.assigned_names(f.node.body, None) if any(isinstance(i, ast.Nonlocal) and x in i.names for i in ast.walk(f.node))}
                    loc = {a.arg for a in f.node.args.args} | {nn.id for nn in ast.walk(f.node) if isinstance(nn, ast.Name) and isinstance(nn.ctx, ast.Store)}
                    for inner in ast.walk(f.node):
                        if isinstance(inner, ast.Call) and isinstance(inner.func, ast.Attribute) and inner.func.attr in MUTATORS and isinstance(inner.func.value, ast.Name) and inner.func.value.id not in loc:
                            out.add(inner.func.value.id)
            if isinstance(st, (ast.ListComp, ast.GeneratorExp, ast.SetComp, ast.DictComp)):
                pass
        return out

    def havoc_value(s, name, v):
        if isinstance(v, SInt):
            return SInt(fresh(name))
        if isinstance(v, SBool):
            return SBool(fresh(name, B))
        if isinstance(v, SStr):
            return SStr(fresh(name, S))
        if isinstance(v, SObj):
            return SObj(fresh(name, Obj))
        if isinstance(v, SSeq):
            return SSeq(fresh(name, z3.ArraySort(I, sort_of(v.ek))), fresh(name + "_len"), v.ek, v.pykind)
        if isinstance(v, STup):
            kinds = {getattr(i, "kind", None) for i in v.items}
            if len(kinds) == 1 and None not in kinds:
                (k,) = kinds
                return SSeq(fresh(name, z3.ArraySort(I, sort_of(k))), fresh(name + "_len"), k, v.pykind)
            if not v.items:
                return SSeq(fresh(name, z3.ArraySort(I, I)), fresh(name + "_len"), "int", v.pykind)
            return STup([s.havoc_value(f"{name}_{i}", it) for i, it in enumerate(v.items)], v.pykind)
        if isinstance(v, SRec):
            r = SRec(v.cls, **{k: s.havoc_value(f"{name}_{k}", f) for k, f in v.f.items()})
            r.isa = getattr(v, "isa", (v.cls,))
            return r
        if isinstance(v, SDict):
            return SDict({k: s.havoc_value(f"{name}_{k}", x) for k, x in v.d.items()})
        if isinstance(v, SSet) and v.member is not None:
            return SSet(fresh(name + "_member", z3.ArraySort(sort_of(v.ek), B)), v.ek)
        if isinstance(v, SMap):
            return SMap(fresh(name + "_has", z3.ArraySort(sort_of(v.kk), B)), fresh(name + "_val", z3.ArraySort(sort_of(v.kk), sort_of(v.vk))), v.kk, v.vk)
        if isinstance(v, SZip):
            return SZip([fresh(f"{name}_c{j}", z3.ArraySort(I, sort_of(k))) for j, k in enumerate(v.eks)], fresh(name + "_len"), v.eks, v.pykind)
        raise OutOfSubset(f"cannot havoc {name} = {v!r}")

    def havoc(s, names, p):
        for nme in sorted(names):
            if not p.has(nme):
                continue
            v = p.lookup(nme)
            nv = s.havoc_value(nme, v)
            if isinstance(nv, (SSeq, SZip)):
                p.pc.append(nv.n >= 0)
            for f in reversed(p.frames):
                if nme in f:
                    f[nme] = nv
                    break

    def havoc_ghost(s, p):
        for name in getattr(s, "ghost_havoc", ()):
            v = p.ghost.get(name)
            if v is not None and z3.is_expr(v):
                p.ghost[name] = z3.FreshConst(v.sort(), name)

    def st_While(s, st, p):
        ordn = s.loop_ordinal(st)
        if st.orelse:
            raise OutOfSubset("while-else")
        inv = s.invariants.get(ordn)
        if s.mode == "bmc" or inv is None:
            yield from s.unroll_while(st, p, ordn, s.unroll if s.mode == "bmc" else 16, strict=(s.mode != "bmc"))
            return
        mod = s.assigned_names(st.body, p)
        p.ghost = dict(p.ghost)
        p.ghost[f"entry{ordn}"] = {nm: p.lookup(nm) for nm in mod if p.has(nm)}  # values at loop entry (old(...) in invariants)
        s.oblige(f"loop{ordn}:invariant-entry", p, inv(s, p), "invariant", st.lineno)
        q = p.fork()
        s.havoc(mod, q)
        s.havoc_ghost(q)
        q.pc.append(inv(s, q))
        for c, b in s.ev(st.test, q.fork()):
            body = b
            body.pc.append(s.truth(c))
            if not s.feasible(body):
                continue
            for out, r in s.exec_block(st.body, [body]):
                if out is None or isinstance(out, Continue):
                    s.oblige(f"loop{ordn}:invariant-preserved", r, inv(s, r), "invariant", st.lineno)
                elif isinstance(out, Break):
                    yield None, r
                else:
                    yield out, r
        for c, e in s.ev(st.test, q):
            e.pc.append(z3.Not(s.truth(c)))
            if s.feasible(e):
                yield None, e

    def unroll_while(s, st, p, ordn, bound, strict):
        frontier = [p]
        for it in range(bound + 1):
            nxt = []
            for q in frontier:
                for c, q1 in s.ev(st.test, q):
                    t = z3.simplify(s.truth(c))
                    if not z3.is_true(t):
                        e = q1.fork()
                        e.pc.append(z3.Not(t))
                        if z3.is_false(t) or s.feasible(e):
                            yield None, e
                    if not z3.is_false(t):
                        b = q1.fork()
                        b.pc.append(t)
                        if z3.is_true(t) or s.feasible(b):
                            if it == bound:
                                if strict:
                                    raise OutOfSubset(f"while loop at line {st.lineno} needs an invariant (not decidable by unrolling {bound}x)")
                                s.stats["unwind_bound_hit"] = s.stats.get("unwind_bound_hit", 0) + 1
                                continue
                            for out, r in s.exec_block(st.body, [b]):
                                if out is None or isinstance(out, Continue):
                                    nxt.append(r)
                                elif isinstance(out, Break):
                                    yield None, r
                                else:
                                    yield out, r
            frontier = nxt
            if not frontier:
                return

    def loop_items(s, it_node, p):
        """for-iterable -> (kind, payload, path): 'items' (concrete list of values) | 'seq' (length term, element maker) | 'set'.
        list(...) / tuple(...) wrappers are transparent; zip / enumerate / reversed compose (also nested)."""
        def is_call(n, names):
            return isinstance(n, ast.Call) and isinstance(n.func, ast.Name) and n.func.id in names and not p.has(n.func.id)

        def spec(node, p0):
            if is_call(node, ("list", "tuple")) and len(node.args) == 1 and not isinstance(node.args[0], (ast.GeneratorExp, ast.ListComp)):
                yield from spec(node.args[0], p0)
                return
            if is_call(node, ("reversed",)):
                for kind, pay, p1 in spec(node.args[0], p0):
                    if kind == "items":
                        yield "items", list(reversed(pay)), p1
                    elif kind == "seq":
                        n, elem = pay
                        yield "seq", (n, lambda k, n=n, elem=elem: elem(n - 1 - k)), p1
                    else:
                        raise OutOfSubset("reversed(set)")
                return
            if is_call(node, ("enumerate",)):
                for kind, pay, p1 in spec(node.args[0], p0):
                    if kind == "items":
                        yield "items", [STup([SInt(i), x]) for i, x in enumerate(pay)], p1
                    elif kind == "seq":
                        n, elem = pay
                        yield "seq", (n, lambda k, elem=elem: STup([SInt(k), elem(k)])), p1
                    else:
                        raise OutOfSubset("enumerate(set)")
                return
            if is_call(node, ("zip",)):
                def combine(args, p0):
                    if not args:
                        yield [], p0
                        return
                    for kind, pay, p1 in spec(args[0], p0):
                        for rest, p2 in combine(args[1:], p1):
                            yield [(kind, pay)] + rest, p2

                for parts, p1 in combine(list(node.args), p0):
                    if all(k == "items" for k, _ in parts):
                        yield "items", [STup(list(xs)) for xs in zip(*[pay for _, pay in parts])], p1
                        continue
                    seqs = []
                    for k, pay in parts:
                        if k == "items":
                            sq = s.as_seq(STup(pay), p1)
                            seqs.append((sq.n, lambda j, sq=sq: sq.at(j)))
                        elif k == "seq":
                            seqs.append(pay)
                        else:
                            raise OutOfSubset("zip(set)")
                    ln = seqs[0][0]
                    for n2, _ in seqs[1:]:
                        ln = z3.If(n2 < ln, n2, ln)
                    yield "seq", (z3.simplify(ln), lambda j, seqs=seqs: STup([el(j) for _, el in seqs])), p1
                return
            for it, p1 in s.ev(node, p0):
                if isinstance(it, SSet):
                    yield "set", it, p1
                elif isinstance(it, STup):
                    yield "items", list(it.items), p1
                elif isinstance(it, SDict):
                    yield "items", [s.lift(k) for k in it.d], p1
                elif isinstance(it, SConc) and isinstance(it.v, (list, tuple, range, str, dict)):
                    yield "items", [s.lift(k) for k in it.v], p1
                else:
                    sq = s.as_seq(it, p1)
                    nc = z3.simplify(sq.n)
                    if z3.is_int_value(nc) and nc.as_long() <= 12:
                        yield "items", [sq.at(z3.IntVal(k)) for k in range(nc.as_long())], p1
                    else:
                        yield "seq", (sq.n, lambda k, q=sq: q.at(k)), p1

        yield from spec(it_node, p)

    def st_For(s, st, p):
        ordn = s.loop_ordinal(st)
        for kind, payload, p1 in s.loop_items(st.iter, p):
            if kind == "items":
                yield from s.for_unrolled(st, payload, p1)
            elif kind == "seq":
                n, elem = payload
                inv = s.invariants.get(ordn)
                if s.mode == "bmc":
                    raise OutOfSubset(f"bmc mode needs concrete lengths (for loop at line {st.lineno})")
                if inv is None:
                    yield from s.for_auto(st, n, elem, p1, ordn)
                else:
                    yield from s.for_invariant(st, n, elem, p1, ordn, inv)
            else:
                raise OutOfSubset("for over a set (use a set-iteration contract)")

    def for_unrolled(s, st, items, p):
        frontier = [p]
        for it in items:
            nxt = []
            for q in frontier:
                if not s.assign(st.target, it, q):
                    continue
                for out, r in s.exec_block(st.body, [q]):
                    if out is None or isinstance(out, Continue):
                        nxt.append(r)
                    elif isinstance(out, Break):
                        yield None, r
                    else:
                        yield out, r
            frontier = nxt
        for q in frontier:
            if st.orelse:
                yield from s.exec_block(st.orelse, [q])
            else:
                yield None, q

    def for_invariant(s, st, n, elem, p, ordn, inv):
        """inv(engine, path, i): holds before iteration i (0 <= i <= n)."""
        if st.orelse:
            raise OutOfSubset("for-else with invariant")
        p.pc.append(n >= 0)
        mod = s.assigned_names(st.body, p) | {nn.id for nn in ast.walk(st.target) if isinstance(nn, ast.Name)}
        p.ghost = dict(p.ghost)
        p.ghost[f"entry{ordn}"] = {nm: p.lookup(nm) for nm in mod if p.has(nm)}  # values at loop entry (old(...) in invariants)
        s.oblige(f"loop{ordn}:invariant-entry", p, inv(s, p, z3.IntVal(0)), "invariant", st.lineno)
        q = p.fork()
        s.havoc(mod, q)
        s.havoc_ghost(q)
        i = fresh("it")
        body = q.fork()
        body.pc.append(z3.And(0 <= i, i < n))
        body.pc.append(inv(s, body, i))
        if s.assign(st.target, elem(i), body):
            for out, r in s.exec_block(st.body, [body]):
                if out is None or isinstance(out, Continue):
                    s.oblige(f"loop{ordn}:invariant-preserved", r, inv(s, r, i + 1), "invariant", st.lineno)
                elif isinstance(out, Break):
                    yield None, r
                else:
                    yield out, r
        q.pc.append(inv(s, q, n))
        yield None, q

    def for_auto(s, st, n, elem, p, ordn):
        """auto-invariant: the body appends exactly one pure value per iteration to each accumulator list and changes nothing else."""
        if st.orelse:
            raise OutOfSubset("for-else over a symbolic sequence")
        tnames = {nn.id for nn in ast.walk(st.target) if isinstance(nn, ast.Name)}
        mod = s.assigned_names(st.body, p) - tnames
        accs = sorted(mod)
        for a in accs:
            if not p.has(a) or not isinstance(p.lookup(a), (SSeq, STup)):
                raise OutOfSubset(f"for loop at line {st.lineno} needs an invariant (modifies {a})")
        p.pc.append(n >= 0)
        k = fresh("fk")
        mark = fresh_mark()
        body = p.fork()
        base = len(body.pc)
        body.pc.append(z3.And(0 <= k, k < n))
        olds = {a: s.as_seq(p.lookup(a), p) for a in accs}
        for a in accs:
            body.bind(a, SSeq(fresh("acc", z3.ArraySort(I, sort_of(olds[a].ek))), 0, olds[a].ek, "list"))
        if not s.assign(st.target, elem(k), body):
            return
        vals = {a: None for a in accs}
        outs = s.exec_block(st.body, [body])
        for out, r in outs:
            if not (out is None or isinstance(out, Continue)):
                raise OutOfSubset(f"for loop at line {st.lineno} needs an invariant (early exit)")
        conds_all = []
        for out, r in reversed(outs):
            cond = z3.And(*r.pc[base + 1 :]) if len(r.pc) > base + 1 else z3.BoolVal(True)
            conds_all.append(cond)
            for a in accs:
                acc = r.lookup(a)
                if not isinstance(acc, SSeq):
                    raise OutOfSubset("accumulator rebound")
                s.oblige(f"for-line{st.lineno}:one-append-per-iteration[{a}]", r, acc.n == 1, "engine", st.lineno)
                e = z3.Select(acc.arr, 0)
                vals[a] = e if vals[a] is None else z3.If(cond, e, vals[a])
        # per-iteration values (results of .index, max, ... created in the generic body) become Skolem functions of k; the path
        # conditions that define them are asserted for every iteration (one of the body's normal exits is taken)
        consts, funs = fresh_since(mark, conds_all + [v for v in vals.values() if v is not None])
        consts = [c0 for c0 in consts if not any(z3.eq(c0, body.lookup(a).arr) for a in accs if isinstance(body.lookup(a), SSeq))]
        if funs:
            raise OutOfSubset(f"for loop at line {st.lineno} needs an invariant (body defines quantified values)")
        if consts:
            sub_ = [(c0, fresh_fun("sk", I, c0.sort())(k)) for c0 in consts]
            vals = {a: (z3.substitute(v, *sub_) if v is not None else None) for a, v in vals.items()}
            p.pc.append(z3.ForAll([k], z3.Implies(z3.And(0 <= k, k < n), z3.Or(*[z3.substitute(c, *sub_) for c in conds_all]))))
        for a in accs:
            L0 = olds[a]
            R = fresh(a, z3.ArraySort(I, sort_of(L0.ek)))
            p.pc.append(z3.ForAll([k], z3.Implies(z3.And(0 <= k, k < n), z3.Select(R, L0.n + k) == vals[a])))
            p.pc.append(s.forall(0, L0.n, lambda j: z3.Select(R, j) == z3.Select(L0.arr, j)))
            p.bind(a, SSeq(R, L0.n + n, L0.ek, "list"))
        yield None, p

    # ------------------------------------------------------------------ driver
    def loop_ordinal(s, st):
        """static ordinal of a for/while statement: its position in source order among the loop statements of the code under verification
        (the function, or the region); invariants are keyed by it, so the key does not depend on the order in which paths are explored"""
        o = getattr(s, "_loop_ordinals", {}).get(id(st))
        if o is None:  # statement outside the registered body (e.g. a helper function inlined from elsewhere): numbered after the static ones, in execution order
            o = s._loop_extra = getattr(s, "_loop_extra", len(getattr(s, "_loop_ordinals", {})) - 1) + 1
            s._loop_ordinals[id(st)] = o
        return o

    def run(s, fnode, env, pre, ghost=None):
        """execute a function body from the entry; returns list of (outcome, path)"""
        p = Path([dict(env)], list(pre), ghost)
        body = fnode if isinstance(fnode, list) else fnode.body
        loops = sorted((nn for st0 in body for nn in ast.walk(st0) if isinstance(nn, (ast.For, ast.While))), key=lambda nn: (nn.lineno, nn.col_offset))
        s._loop_ordinals = {id(nn): i for i, nn in enumerate(loops)}
        s._exc.append([])
        try:
            outs = s.exec_block(body, [p])
        finally:
            exc = s._exc.pop()
        return outs + exc
