"""String theory helpers: character classes are computed from the running interpreter's Unicode tables."""
import functools
import z3


def _ranges(pred):
    out, st = [], None
    for c in range(0x110000):
        ok = pred(chr(c))
        if ok and st is None:
            st = c
        if not ok and st is not None:
            out.append((st, c - 1))
            st = None
    if st is not None:
        out.append((st, 0x10FFFF))
    return out


@functools.lru_cache(None)
def class_ranges(name):
    return _ranges(getattr(str, name))


@functools.lru_cache(None)
def char_class(name):
    """z3 regex for one character c with str.<name>(c) true (solver alphabets stop at U+2FFFF: stated assumption)."""
    parts = [z3.Range(z3.StringVal(chr(a)), z3.StringVal(chr(min(b, 0x2FFFF)))) for a, b in class_ranges(name) if a <= 0x2FFFF]
    return z3.Union(*parts) if len(parts) > 1 else parts[0]


def strip_axioms(src, out):
    """out = src.strip() restricted to what callers use: out is a substring of src without leading/trailing ' '
    (full Unicode whitespace stripping is not modelled: callers here only ever see ' ' as whitespace)."""
    i = z3.FreshInt("strip_i")
    return z3.And(0 <= i, i + z3.Length(out) <= z3.Length(src), out == z3.SubString(src, i, z3.Length(out)),
                  z3.Not(z3.PrefixOf(z3.StringVal(" "), out)), z3.Not(z3.SuffixOf(z3.StringVal(" "), out)))
