"""String theory helpers: character classes are computed from the running interpreter's Unicode tables."""
import functools
import z3


def _ranges(pred):
    out, st = [], None
    for c in range(0x110000):
        ok = pred(chr(c))
        if ok and st is None:
            st = c
        if not ok and st is not None:
            out.append((st, c - 1))
            st = None
    if st is not None:
        out.append((st, 0x10FFFF))
    return out


@functools.lru_cache(None)
def class_ranges(name):
    return _ranges(getattr(str, name))


@functools.lru_cache(None)
def char_class(name):
    """z3 regex for one character c with str.<name>(c) true (solver alphabets stop at U+2FFFF: stated assumption)."""
    parts = [z3.Range(z3.StringVal(chr(a)), z3.StringVal(chr(min(b, 0x2FFFF)))) for a, b in class_ranges(name) if a <= 0x2FFFF]
    return z3.Union(*parts) if len(parts) > 1 else parts[0]


def strip_axioms(src, out):
    """out = src.strip() restricted to what callers use: out is a substring of src without leading/trailing ' '
    (full Unicode whitespace stripping is not modelled: callers here only ever see ' ' as whitespace)."""
    i = z3.FreshInt("strip_i")
    return z3.And(0 <= i, i + z3.Length(out) <= z3.Length(src), out == z3.SubString(src, i, z3.Length(out)),
                  z3.Not(z3.PrefixOf(z3.StringVal(" "), out)), z3.Not(z3.SuffixOf(z3.StringVal(" "), out)))


def regex_to_z3(pattern):
    """translate a (simple) Python regex to a z3 regex via the interpreter's own parser; unsupported constructs raise (=> out of subset)"""
    import re._parser as sre  # python >= 3.11
    import re._constants as C

    def cls_item(it):
        op, av = it
        if op == C.LITERAL:
            return z3.Re(z3.StringVal(chr(av)))
        if op == C.RANGE:
            return z3.Range(z3.StringVal(chr(av[0])), z3.StringVal(chr(av[1])))
        raise NotImplementedError(f"regex class item {op}")

    def seq(items):
        parts = [one(i) for i in items]
        if not parts:
            return z3.Re(z3.StringVal(""))
        r = parts[0]
        for x in parts[1:]:
            r = z3.Concat(r, x)
        return r

    def one(it):
        op, av = it
        if op == C.LITERAL:
            return z3.Re(z3.StringVal(chr(av)))
        if op == C.IN:
            if av and av[0][0] == C.NEGATE:
                raise NotImplementedError("negated class")
            parts = [cls_item(x) for x in av]
            return z3.Union(*parts) if len(parts) > 1 else parts[0]
        if op in (C.MAX_REPEAT, C.MIN_REPEAT):
            lo, hi, sub = av
            r = seq(list(sub))
            if lo == 0 and hi == C.MAXREPEAT:
                return z3.Star(r)
            if lo == 1 and hi == C.MAXREPEAT:
                return z3.Plus(r)
            if lo == 0 and hi == 1:
                return z3.Option(r)
            raise NotImplementedError("bounded repeat")
        if op == C.SUBPATTERN:
            return seq(list(av[3]))
        if op == C.BRANCH:
            parts = [seq(list(b)) for b in av[1]]
            return z3.Union(*parts)
        raise NotImplementedError(f"regex op {op}")

    return seq(list(sre.parse(pattern)))
