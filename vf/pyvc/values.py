"""Symbolic values of the pyvc engine (typed wrappers around z3 terms)."""
import itertools
import z3

I = z3.IntSort()
B = z3.BoolSort()
S = z3.StringSort()
Obj = z3.DeclareSort("Obj")

_n = [0]


def _next():
    _n[0] += 1
    return _n[0]


def fresh_mark():
    """all names created by fresh()/fresh_fun() after this call carry a number > the returned mark"""
    return _n[0]


def fresh(prefix, sort=I):
    return z3.Const(f"{prefix}!{_next()}", sort)


def fresh_fun(prefix, *sorts):
    return z3.Function(f"{prefix}!{_next()}", *sorts)


def fresh_since(mark, terms):
    """(constants, functions): the fresh uninterpreted symbols numbered > mark that occur in the given z3 terms"""
    consts, funs, seen = {}, {}, set()
    todo = [t for t in terms if t is not None]
    while todo:
        t = todo.pop()
        if t.get_id() in seen:
            continue
        seen.add(t.get_id())
        if z3.is_quantifier(t):
            todo.append(t.body())
            continue
        if z3.is_app(t):
            d = t.decl()
            if d.kind() == z3.Z3_OP_UNINTERPRETED:
                nm = d.name()
                if "!" in nm:
                    tail = nm.rsplit("!", 1)[1]
                    if tail.isdigit() and int(tail) > mark:
                        (consts if d.arity() == 0 else funs)[nm] = t if d.arity() == 0 else d
            todo.extend(t.children())
    return list(consts.values()), list(funs.values())


_ufs = {}


def uf(name, *sorts):
    key = (name, tuple(str(s) for s in sorts))
    if key not in _ufs:
        _ufs[key] = z3.Function(name, *sorts)
    return _ufs[key]


def sort_of(kind):
    return {"int": I, "bool": B, "str": S, "obj": Obj}[kind]


class SVal:
    pass


class SInt(SVal):
    kind = "int"

    def __init__(s, t):
        s.t = t if z3.is_expr(t) else z3.IntVal(int(t))

    def __repr__(s):
        return f"SInt({s.t})"


class SBool(SVal):
    kind = "bool"

    def __init__(s, t):
        s.t = t if z3.is_expr(t) else z3.BoolVal(bool(t))

    def __repr__(s):
        return f"SBool({s.t})"


class SStr(SVal):
    kind = "str"

    def __init__(s, t):
        s.t = t if z3.is_expr(t) else z3.StringVal(t)

    def __repr__(s):
        return f"SStr({s.t})"


class SObj(SVal):
    """Opaque object: uninterpreted sort; attributes / items / isinstance are deterministic uninterpreted functions."""

    kind = "obj"

    def __init__(s, t):
        s.t = t

    def __repr__(s):
        return f"SObj({s.t})"


class SConc(SVal):
    """Concrete Python value (None, str/float constants, classes, modules, functions of the real module)."""

    def __init__(s, v):
        s.v = v

    def __repr__(s):
        return f"SConc({s.v!r})"


class SSeq(SVal):
    """Homogeneous sequence: z3 array + length. ek = element kind ('int' | 'obj' | 'str' | 'bool')."""

    def __init__(s, arr, n, ek="int", pykind="list"):
        s.arr = arr
        s.n = n if z3.is_expr(n) else z3.IntVal(int(n))
        s.ek = ek
        s.pykind = pykind

    def at(s, i):
        return wrap(z3.Select(s.arr, i), s.ek)

    def __repr__(s):
        return f"SSeq[{s.ek}](n={s.n})"


class STup(SVal):
    """Concrete-length, possibly heterogeneous tuple/list of symbolic values."""

    def __init__(s, items, pykind="tuple"):
        s.items = list(items)
        s.pykind = pykind

    @property
    def n(s):
        return z3.IntVal(len(s.items))

    def __repr__(s):
        return f"STup({s.items})"


class SDict(SVal):
    """dict with concrete (hashable python) keys."""

    def __init__(s, d):
        s.d = dict(d)


class SRec(SVal):
    """Ghost record with declared fields (e.g. tensor{ndim, lab})."""

    def __init__(s, cls="rec", **f):
        s.cls = cls
        s.f = f

    def __repr__(s):
        return f"SRec<{s.cls}>({s.f})"


class SSet(SVal):
    """Set of ints/objs as a characteristic array; iteration order is an arbitrary permutation."""

    def __init__(s, member, ek="int"):
        s.member = member  # Array ek -> Bool
        s.ek = ek


class SMap(SVal):
    """dict with symbolic keys of one kind: presence array + value array (no iteration, no cardinality)."""

    def __init__(s, has, val, kk="obj", vk="int"):
        s.has, s.val, s.kk, s.vk = has, val, kk, vk

    @staticmethod
    def empty(kk, vk):
        return SMap(z3.K(sort_of(kk), z3.BoolVal(False)), fresh("mapval", z3.ArraySort(sort_of(kk), sort_of(vk))), kk, vk)

    def __repr__(s):
        return f"SMap[{s.kk}->{s.vk}]"


class SZip(SVal):
    """list of equal-arity tuples with symbolic length: parallel homogeneous sequences sharing one length (struct of arrays)."""

    def __init__(s, arrs, n, eks, pykind="list"):
        s.arrs, s.eks, s.pykind = list(arrs), list(eks), pykind
        s.n = n if z3.is_expr(n) else z3.IntVal(int(n))

    @staticmethod
    def empty(eks):
        return SZip([fresh("zipcol", z3.ArraySort(I, sort_of(k))) for k in eks], 0, eks)

    def col(s, j):
        return SSeq(s.arrs[j], s.n, s.eks[j], "list")

    def at(s, i):
        return STup([wrap(z3.Select(a, i), k) for a, k in zip(s.arrs, s.eks)])

    def __repr__(s):
        return f"SZip[{','.join(s.eks)}](n={s.n})"


class SFunc(SVal):
    """Nested def of the function under verification: inlined at call sites."""

    def __init__(s, node):
        s.node = node


class SContract(SVal):
    """Callee under contract: python callable(engine, path, args, kwargs) -> value (may add obligations / assumptions)."""

    def __init__(s, fn, name="?"):
        s.fn = fn
        s.name = name


def wrap(t, kind):
    return {"int": SInt, "bool": SBool, "str": SStr, "obj": SObj}[kind](t)


def term(v):
    if isinstance(v, (SInt, SBool, SStr, SObj)):
        return v.t
    raise TypeError(f"no single z3 term for {v!r}")
