"""Verdict ladder, evidence, replay files, known findings (DESIGN §2.7)."""
import json
import os
import time

ROOT = os.path.dirname(os.path.dirname(os.path.abspath(__file__)))
EVID = os.environ.get("EINX_VERIF_OUT", os.path.join(ROOT, "evidence"))
REPL = os.environ.get("EINX_VERIF_OUT", os.path.join(ROOT, "replays"))
BASELINE = os.path.join(ROOT, "baseline", "obligations.json")


def load_known():
    out = []
    p = os.path.join(ROOT, "known_findings.jsonl")
    if os.path.exists(p):
        for l in open(p):
            l = l.strip()
            if l:
                out.append(json.loads(l))
    return out


def load_baseline():
    if os.path.exists(BASELINE):
        return json.load(open(BASELINE))
    return {}


def jsonable(x):
    try:
        json.dumps(x)
        return x
    except TypeError:
        if isinstance(x, dict):
            return {str(k): jsonable(v) for k, v in x.items()}
        if isinstance(x, (list, tuple, set)):
            return [jsonable(v) for v in x]
        if hasattr(x, "tolist"):
            return x.tolist()
        return repr(x)


class Check:
    def __init__(self, prop, tier, seed, level):
        self.prop, self.tier, self.seed, self.level = prop, tier, seed, level
        self.t0 = time.time()
        self.kernels = []  # KernelResult
        self.rules = []  # dict(name, ok, sites, detail)
        self.bounded = []  # dict(name, bound, evaluations, distinct, exhaustive, failures[], samples[])
        self.violations = []  # dict(obligation, detail, replay(dict)|None, found_input:bool)
        self.known_seen = []
        self.undecided = []
        self.assumptions = []
        self.trusted = []
        self.explanation = ""
        self.checker_errors = []
        self.known = [k for k in load_known() if k.get("kind") == "finding" and (k.get("property") == prop or prop in k.get("also", []))]

    # -- violations -------------------------------------------------------------------------------------------------
    def violation(self, obligation, detail, replay=None, found_input=True, verifier_output=None):
        self.violations.append({"obligation": obligation, "detail": detail, "replay": replay, "found_input": found_input, "verifier_output": verifier_output})

    def known_finding(self, fid, what):
        if (fid, what) not in self.known_seen:
            self.known_seen.append((fid, what))

    # -- P level ----------------------------------------------------------------------------------------------------
    def add_kernel(self, res):
        self.kernels.append(res)
        k = res.kernel
        base = set(load_baseline().get(self.prop, []))
        lost_names = sorted({o["name"] for o in res.obligations if o["verdict"] != "unsat"})
        for f in res.failures:
            ob = lost_names[0] if lost_names else f"{k.id}:bounded-twin"
            self.violation(ob, f.get("detail", "real function disagrees with its contract on a concrete input") + (f" [obligations no longer discharged: {lost_names}]" if lost_names else " [found by the bounded twin of this kernel]"),
                           replay={"kind": "twin", "kernel": k.id, "case": jsonable(f)}, found_input=True)
        if res.status in ("out_of_subset", "unbound", "error"):
            self.undecided.append({"kernel": k.id, "why": f"{res.status}: {res.detail}"})
            lost = [n for n in base if n.startswith(k.id + ":")]
            if lost and not res.failures:
                # the contract can no longer be bound to / generated from the source: undecided (never a violation by itself)
                self.undecided.append({"kernel": k.id, "why": f"{len(lost)} obligations that are discharged on the unchanged tree could not be generated; bounded twin ({res.twin_evals} evaluations at the thorough bound) found nothing"})
            return
        names = {}
        for o in res.obligations:
            names.setdefault(o["name"], []).append(o)
        for name, os_ in names.items():
            bad = [o for o in os_ if o["verdict"] != "unsat"]
            if not bad:
                continue
            o = bad[0]
            if name in base or not base or o.get("kind") in ("post", "invariant", "frame"):
                if not res.failures:
                    self.violation(name, f"obligation discharged on the unchanged tree is no longer discharged (verdict {o['verdict']}, {o['backend']}, {o['seconds']}s, reason: {o.get('reason', '')}); bounded twin ran {res.twin_evals} cases at the thorough bound without a failing input",
                                   replay={"kind": "obligation", "kernel": k.id, "obligation": name}, found_input=False, verifier_output={"verdict": o["verdict"], "reason": o.get("reason"), "model": o.get("model", "")[:2000]})
            else:
                self.undecided.append({"kernel": k.id, "obligation": name, "why": f"{o['verdict']} ({o.get('reason', '')}) - not in the baseline of discharged obligations"})
        if res.canary_ok is False:
            self.checker_errors.append(f"{k.id}: canary obligation not refuted")
        if res.n == 0:
            self.checker_errors.append(f"{k.id}: zero obligations generated")
        if getattr(res, "twin_error", None):
            self.checker_errors.append(f"{k.id}: bounded twin crashed: {res.twin_error.splitlines()[0]}")

    def add_lemmas(self, tier):
        """ghost lemmas used by the kernels of this check: the Lean file must be accepted by lean (stamp-cached in the quick tier)"""
        if not any("ghost lemma" in a for r in self.kernels for a in (r.info or {}).get("assumed", [])):
            return
        from . import lemmas
        r = lemmas.ensure_checked(force=(tier == "thorough"))
        self.rules.append({"name": f"{self.prop}.L.lemmas_accepted_by_lean", "ok": bool(r["ok"]), "sites": 1, "failing": [], "detail": r["detail"]})
        self.trusted.append(f"Lean 4.33 kernel + Mathlib for the ghost lemmas of lemmas/Lemmas.lean ({'stamp-cached' if r['cached'] else 'checked in %.0f s' % r['seconds']})")
        if not r["ok"]:
            self.checker_errors.append(f"lemmas/Lemmas.lean not accepted by lean: {r['detail'][-300:]}")

    # -- S level ----------------------------------------------------------------------------------------------------
    def add_rule(self, name, ok, sites, failing=(), detail=""):
        self.rules.append({"name": name, "ok": bool(ok), "sites": sites, "failing": list(failing), "detail": detail})
        if not ok:
            for f in (failing or [detail]):
                self.violation(f"{name}", f"syntactic frame rule fails at {f}", replay={"kind": "rule", "rule": name, "site": jsonable(f)}, found_input=False, verifier_output={"rule": name, "site": jsonable(f), "detail": detail})

    # -- B level ----------------------------------------------------------------------------------------------------
    def add_bounded(self, name, bound, evaluations, distinct, failures=(), samples=(), exhaustive=False, note=""):
        self.bounded.append({"name": name, "bound": bound, "evaluations": int(evaluations), "distinct_nontrivial": int(distinct), "exhaustive": bool(exhaustive),
                             "failures": len(failures), "samples": jsonable(list(samples)[:5]), "note": note, "counts_as": "bounded (never counted as proved)"})

    # -- finish -----------------------------------------------------------------------------------------------------
    def finish(self, checker_cmd):
        os.makedirs(EVID, exist_ok=True)
        os.makedirs(REPL, exist_ok=True)
        for fn_ in os.listdir(REPL):  # replay files of earlier runs of this property are stale
            if fn_.startswith(self.prop + "-"):
                os.unlink(os.path.join(REPL, fn_))
        n_obl = sum(r.n for r in self.kernels) + len(self.rules)
        n_dis = sum(r.discharged for r in self.kernels) + sum(1 for r in self.rules if r["ok"])
        by_backend = {"z3": 0, "cvc5": 0, "ledger": 0, "rule": sum(1 for r in self.rules if r["ok"])}
        slow = []
        for r in self.kernels:
            for o in r.obligations:
                if o["verdict"] == "unsat":
                    by_backend[o["backend"]] = by_backend.get(o["backend"], 0) + 1
                if o["seconds"] > 0.2 * r.kernel.z3_timeout:
                    slow.append({"obligation": o["name"], "seconds": o["seconds"], "backend": o["backend"]})
        evals = sum(b["evaluations"] for b in self.bounded) + sum(r.twin_evals for r in self.kernels)
        distinct = sum(b["distinct_nontrivial"] for b in self.bounded) + sum(r.twin_evals for r in self.kernels)
        samples = []
        for r in self.kernels:
            for o in r.obligations[:2]:
                samples.append({"obligation": o["name"], "verdict": o["verdict"], "backend": o["backend"], "seconds": o["seconds"]})
        for r in self.rules[:3]:
            samples.append({"rule": r["name"], "ok": r["ok"], "sites": r["sites"] if isinstance(r["sites"], int) else len(r["sites"])})
        for b in self.bounded:
            samples += b["samples"][:2]
        cov = {
            "obligations": n_obl, "discharged": n_dis, "checker_cmd": checker_cmd, "by_backend": by_backend,
            "solver_s": round(sum(r.solver_s for r in self.kernels), 3), "slow_queries": slow[:20],
            "from_ledger": [{"obligation": o["name"], "reason": o.get("reason")} for r in self.kernels for o in r.obligations if o.get("from_ledger")][:40],
            "functions_under_contract": [dict(r.info, kernel=r.kernel.id, status=r.status, detail=r.detail, obligations=r.n, discharged=r.discharged,
                                              cover_reachable=r.cover_ok, canary_refuted=r.canary_ok, twin_evaluations=r.twin_evals, contract=r.kernel.describe) for r in self.kernels],
            "rules": [{"name": r["name"], "ok": r["ok"], "sites": r["sites"] if isinstance(r["sites"], int) else len(r["sites"]), "failing": jsonable(r["failing"])[:5]} for r in self.rules],
            "bounded": self.bounded, "undecided": jsonable(self.undecided)[:40],
            "evaluations": max(int(evals), 0), "distinct_nontrivial": int(distinct),
            "rule": "obligations: one per (path, proof goal) generated from the AST of the real function; bounded cases: enumerated by each harness, distinct = distinct generated inputs (after de-duplication by the harness) that exercise the contract non-vacuously",
            "samples": jsonable(samples)[:12] or ["(none)"],
            "trusted_base": self.trusted + ["z3 5.1 / cvc5 1.0.3", "pyvc encoding of the Python subset (DESIGN §2.2; cross-checked by bounded twins on the real functions)"],
            "explanation": self.explanation,
            "known_findings_seen": [f"{a}: {b}" for a, b in self.known_seen],
            "checker_errors": self.checker_errors,
        }
        ev = {"property_id": self.prop, "tier": self.tier, "seed": int(self.seed), "level": self.level, "coverage": cov,
              "assumptions": self.assumptions, "wall_s": round(time.time() - self.t0, 2), "violations": len(self.violations)}
        with open(os.path.join(EVID, f"{self.prop}.json"), "w") as f:
            json.dump(jsonable(ev), f, indent=1)
        for fid, what in self.known_seen:
            print(f"KNOWN-FINDING: property={self.prop} {fid}: {what}")
        for u in self.undecided[:10]:
            print(f"UNDECIDED property={self.prop} {json.dumps(jsonable(u))[:300]}")
        if self.violations:
            seen = set()
            for i, v in enumerate(self.violations):
                key = v["obligation"]
                if key in seen:
                    continue
                seen.add(key)
                fn = os.path.join(REPL, f"{self.prop}-{''.join(ch if ch.isalnum() or ch in '._-' else '_' for ch in key)[:100]}.json")
                with open(fn, "w") as f:
                    json.dump(jsonable({"property": self.prop, "obligation": v["obligation"], "detail": v["detail"], "replay": v["replay"], "verifier_output": v["verifier_output"],
                                        "rerun": f"./check {self.prop} --replay {os.path.relpath(fn, ROOT)}"}), f, indent=1)
                tail = "" if v["found_input"] else " no-failing-input-found"
                print(f"VIOLATION property={self.prop} replay={os.path.relpath(fn, ROOT)} obligation={v['obligation']}{tail}")
            return 1
        if self.checker_errors:
            for e in self.checker_errors:
                print(f"CHECKER-ERROR property={self.prop} {e}")
            return 3
        print(f"OK property={self.prop} tier={self.tier} obligations={n_obl} discharged={n_dis} bounded_evaluations={evals} wall={ev['wall_s']}s")
        return 0
