"""Build small graphs with the REAL tracer/signature functions, run the REAL optimizer, interpret before/after (C05 twins)."""
import numpy as np
import einx._src.tracer as tracer
from . import irinterp


def _same(a, b):
    a, b = np.asarray(a), np.asarray(b)
    return a.shape == b.shape and a.dtype == b.dtype and np.array_equal(a, b)


def numpy_opts():
    import einx._src.frontend.impl.numpy as impl

    return impl._get_backend_kwargs()["optimizations"]


def build_chain(shape, chain):
    npx = tracer.signature.numpy()
    x = tracer.signature.classical.Tensor(None, shape)
    t = x
    for op, arg in chain:
        t = getattr(npx, op)(t, tuple(arg))
    return tracer.Graph([x], t)


def check_chain(xin, chain):
    """returns None if optimize(graph) evaluates to the same array as graph (and static shape agrees), else a description"""
    import einx._src.frontend.impl.numpy as impl

    npx = tracer.signature.numpy()
    # the optimizer patterns compare the function tracer of a node with the backend's function tracer by ==; build both from one import node
    nptr = tracer.signature.python.import_("numpy", as_="np")
    npx = tracer.signature.numpy(nptr)
    opts = [tracer.optimizer.classical.SkipReshape(nptr.reshape), tracer.optimizer.classical.SkipTranspose(nptr.transpose),
            tracer.optimizer.classical.SkipBroadcastTo(nptr.broadcast_to), tracer.optimizer.classical.SkipConcatenate(nptr.concatenate),
            tracer.optimizer.InlineGraph(), tracer.optimizer.SkipCast()]
    x = tracer.signature.classical.Tensor(None, xin.shape)
    t = x
    for op, arg in chain:
        t = getattr(npx, op)(t, tuple(arg))
    g = tracer.Graph([x], t)
    want, _ = irinterp.run_graph(g, [xin])
    g2 = tracer.optimize(g, opts)
    got, it = irinterp.run_graph(g2, [xin])
    if not _same(want, got):
        return f"optimized graph differs: want {np.asarray(want).tolist()} got {np.asarray(got).tolist()}"
    if tuple(g2.output.shape) != tuple(np.asarray(want).shape):
        return f"static shape {g2.output.shape} != {np.asarray(want).shape}"
    return None


def check_concat(shape, axis, k):
    shape = tuple(shape)
    nptr = tracer.signature.python.import_("numpy", as_="np")
    npx = tracer.signature.numpy(nptr)
    opts = [tracer.optimizer.classical.SkipConcatenate(nptr.concatenate), tracer.optimizer.classical.SkipTranspose(nptr.transpose)]
    xs = [tracer.signature.classical.Tensor(None, shape) for _ in range(k)]
    t = npx.concatenate(xs, axis=axis)
    t = npx.transpose(t, tuple(reversed(range(len(shape)))))
    g = tracer.Graph(xs, t)
    ins = [np.arange(int(np.prod(shape))).reshape(shape) + 100 * i for i in range(k)]
    want, _ = irinterp.run_graph(g, ins)
    g2 = tracer.optimize(g, opts)
    got, _ = irinterp.run_graph(g2, ins)
    return None if _same(want, got) else "optimized concatenate differs"


def replay_chain(shape, chain):
    xin = np.arange(int(np.prod(shape))).reshape(tuple(shape))
    return check_chain(xin, [(op, tuple(arg)) for op, arg in chain])


def _weighted(*xs):
    """not symmetric in its arguments"""
    return sum((i + 1) * 10 ** i * np.asarray(x) for i, x in enumerate(xs))


def check_wrapper(nin, order, extra, nested):
    """graph op(i0..) = f(i_order...) [with an extra constant argument]: InlineGraph may replace it by f only if that is the same function"""
    P = tracer.signature.python
    f = P.constant(_weighted)
    ins = [tracer.signature.classical.Tensor(None, (2,)) for _ in range(nin)]
    args = [ins[k] for k in order] + ([3] if extra else [])
    body = P.call(f, args)
    inner = tracer.Graph(ins, body, name="wrapped")
    if nested:
        outs = [tracer.signature.classical.Tensor(None, (2,)) for _ in range(nin)]
        g = tracer.Graph(outs, P.call(inner, list(outs)), name="op")
    else:
        g = inner
    vals = [np.arange(2) + 1 + 5 * i for i in range(nin)]
    want, _ = irinterp.run_graph(g, vals)
    g2 = tracer.optimize(g, [tracer.optimizer.InlineGraph(), tracer.optimizer.SkipCast()])
    if isinstance(g2, tracer.Graph):
        got, _ = irinterp.run_graph(g2, vals)
    else:
        got = irinterp.Interp().ev(g2)(*vals)
    return None if _same(want, got) else f"inlined wrapper computes {np.asarray(got).tolist()} instead of {np.asarray(want).tolist()}"


def check_liveness(variant):
    """hand-built graphs in which a value v is (a) read by a nested function (closure) or (b) read again by a later outer statement, after a statement that
    could take over v's name; the compiled function and the returned text must agree with the plain-Python reference. Returns None or a description."""
    py = tracer.signature.python
    npx = py.import_("numpy", as_="np")
    x = py.Value(None)
    closure = bool(variant & 1)
    later_outer = bool(variant & 2)
    chain = 1 + ((variant >> 2) & 1)
    s = npx.add(x, 1.0)
    for _ in range(chain - 1):
        s = npx.multiply(s, 3.0)
    t = npx.subtract(s, 2.0)  # candidate for re-using the name of s
    outs = [t]
    if later_outer:
        outs.append(npx.negative(s))  # s is still needed after t was defined
    if closure:
        def inner(y):
            return npx.multiply(y, s)
        g = py.function(inner, args=[py.Value(None)])
        outs.append(py.builtins.list(py.builtins.map(g, t)))
    graph = tracer.Graph([x], tuple(outs), name="op")
    xin = np.asarray([0.0, 1.0, 2.0, 5.0])
    sv = xin + 1.0
    for _ in range(chain - 1):
        sv = sv * 3.0
    tv = sv - 2.0
    exp = [tv]
    if later_outer:
        exp.append(-sv)
    if closure:
        exp.append([y * sv for y in tv])
    try:
        function, code = tracer.compiler.python.compile(graph, return_code=True)
        ns = {}
        exec(code, ns, ns)
        for label, fn in (("compiled function", function), ("returned text", ns["op"])):
            got = fn(xin.copy())
            for a, b in zip(got, exp):
                if not np.allclose(np.asarray(a, dtype=float), np.asarray(b, dtype=float)):
                    return f"liveness variant {variant} (closure={closure}, later outer reader={later_outer}, chain={chain}): {label} differs from the reference:\n{code}"
    except Exception as e:  # noqa
        return f"liveness variant {variant}: {type(e).__name__}: {e}"
    return None
