"""Reference interpreter for einx's tracer IR (spec function for C04/C05): node-by-node evaluation in demand order with
memoisation, including CallInplace, UpdateItem, Assert, Cast, nested Graph closures, tuple/list/dict values.
Written from the node definitions in tracer/signature/python.py; imports einx only for the node classes."""
import builtins
import importlib
import operator
import numpy as np
import einx._src.tracer as tracer
from einx._src.util import pytree

P = tracer.signature.python
OPS = {"+": operator.add, "*": operator.mul, "-": operator.sub, "==": operator.eq, "!=": operator.ne, "<": operator.lt, "<=": operator.le,
       ">": operator.gt, ">=": operator.ge, "/": operator.truediv, "//": operator.floordiv, "%": operator.mod}


class Interp:
    def __init__(self, parent=None):
        self.memo = {}
        self.parent = parent
        self.exec_count = {}  # id(origin) -> number of executions (E4: every effectful node exactly once)
        self.order = []

    def lookup(self, x):
        i = self
        while i is not None:
            if id(x) in i.memo:
                return True, i.memo[id(x)]
            i = i.parent
        return False, None

    def ev(self, x):
        if isinstance(x, (str, int, float, np.integer, np.floating, bool, np.ndarray)) or x is None:
            return x
        if isinstance(x, list):
            return [self.ev(i) for i in x]
        if isinstance(x, tuple):
            return tuple(self.ev(i) for i in x)
        if isinstance(x, dict):
            return {self.ev(k): self.ev(v) for k, v in x.items()}
        if isinstance(x, slice):
            return slice(self.ev(x.start), self.ev(x.stop), self.ev(x.step))
        if isinstance(x, tracer.Graph):
            return Closure(x, self)
        if not isinstance(x, tracer.Tracer):
            return x
        ok, v = self.lookup(x)
        if ok:
            return v
        if x.origin is None:
            raise KeyError(f"unbound input tracer {x!r}")
        o = x.origin
        self.exec_count[id(o)] = self.exec_count.get(id(o), 0) + 1
        self.order.append(type(o).__name__)
        if isinstance(o, P.GetAttr):
            v = getattr(self.ev(o.obj), o.key)
        elif isinstance(o, P.GetItem):
            v = self.ev(o.obj)[self.ev(o.key)]
        elif isinstance(o, P.UpdateItem):
            for dep in o.inputs:
                pass
            obj, key, val = self.ev(o.obj), self.ev(o.key), self.ev(o.value)
            if o.op == "=":
                obj[key] = val
            elif o.op == "+=":
                obj[key] += val
            elif o.op == "-=":
                obj[key] -= val
            else:
                raise NotImplementedError(o.op)
            v = obj
        elif isinstance(o, P.Call):
            for dep in o.additional_dependencies:
                self.ev(dep)
            f = self.ev(o.function)
            v = f(*[self.ev(a) for a in o.args], **{k: self.ev(a) for k, a in o.kwargs.items()})
        elif isinstance(o, P.CallInplace):
            for dep in o.additional_dependencies:
                self.ev(dep)
            xs = self.ev(o.xs)
            f = self.ev(o.function)
            f(*[self.ev(a) for a in o.args], **{k: self.ev(a) for k, a in o.kwargs.items()})
            v = xs
        elif isinstance(o, P.Import):
            v = importlib.import_module(o.import_) if o.from_ is None else getattr(importlib.import_module(o.from_), o.import_)
        elif isinstance(o, P.OperatorApplication):
            v = OPS[o.operator](*[self.ev(a) for a in o.operands])
        elif isinstance(o, P.Builtin):
            v = getattr(builtins, o.name)
        elif isinstance(o, P.Constant):
            v = o.value
        elif isinstance(o, P.Assert):
            cond = self.ev(o.condition)
            if not cond:
                raise AssertionError(o.message)
            conc = self.ev(o.xs)
            pytree.map(lambda t, c: self.memo.__setitem__(id(t), c), o.output, conc)
            return self.memo[id(x)]
        elif isinstance(o, tracer.Cast):
            conc = self.ev(o.input)
            pytree.map(lambda t, c: self.memo.__setitem__(id(t), c), o.output, conc)
            return self.memo[id(x)]
        else:
            raise NotImplementedError(f"node type {type(o).__name__}")
        # an application has one output structure; bind all output tracers
        if isinstance(o.output, tracer.Tracer):
            self.memo[id(o.output)] = v
        else:
            pytree.map(lambda t, c: self.memo.__setitem__(id(t), c), o.output, v)
        return self.memo[id(x)] if id(x) in self.memo else v


class Closure:
    def __init__(self, graph, env):
        self.graph, self.env = graph, env

    def __call__(self, *args):
        if len(args) != len(self.graph.inputs):
            raise ValueError("arity")
        it = Interp(parent=self.env)
        for t, c in zip(self.graph.inputs, args):
            pytree.map(lambda tt, cc: it.memo.__setitem__(id(tt), cc), t, c)
        r = it.ev(self.graph.output)
        self.last = it
        return r


def run_graph(graph, args):
    c = Closure(graph, None)
    return c(*args), c.last
