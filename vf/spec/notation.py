"""Notation model + loop interpreter (spec function for C01/C07/C08/C09/C13-C17). Never imports einx, never parses einx strings,
never solves: the generator knows the tree and the sizes.

dim :=  ('ax', name, bracketed)            named axis
      | ('num', n, bracketed, uid)          a number = a fresh axis of that length (uid makes it unique)
      | ('flat', [dim, ...])                parenthesised (row-major) group
      | ('cat', [[dim...], [dim...], ...])  concatenation  (a + b)   -- only in `id`
      | ('ell', name, k, bracketed)         `name...` with k repetitions -> axes name.0 .. name.(k-1)
An expression is a list of dims. sizes: dict axis-name -> length (ellipsis axes: 'name.i'; numbers: '#uid').
"""
import itertools
import numpy as np


def atoms(dims):
    """expanded atomic axes (name, bracketed) in row-major order; concat not allowed here"""
    for d in dims:
        k = d[0]
        if k == "ax":
            yield (d[1], d[2])
        elif k == "num":
            yield (f"#{d[3]}", d[2])
        elif k == "flat":
            yield from atoms(d[1])
        elif k == "ell":
            for i in range(d[2]):
                yield (f"{d[1]}.{i}", d[3])
        elif k == "cat":
            raise ValueError("atoms() of a concatenation")


def has_cat(dims):
    return any(d[0] == "cat" or (d[0] == "flat" and has_cat(d[1])) for d in dims)


def to_str(dims, ell_style="name"):
    out = []
    for d in dims:
        k = d[0]
        if k == "ax":
            out.append(f"[{d[1]}]" if d[2] else d[1])
        elif k == "num":
            out.append(f"[{d[1]}]" if d[2] else str(d[1]))
        elif k == "flat":
            out.append("(" + to_str(d[1], ell_style) + ")")
        elif k == "cat":
            out.append("(" + " + ".join(to_str(b, ell_style) for b in d[1]) + ")")
        elif k == "ell":
            nm = "" if d[1].startswith("_anon") else d[1]
            s = f"{nm}..."
            out.append(f"[{s}]" if d[3] else s)
    return " ".join(out)


def dim_size(d, sizes):
    k = d[0]
    if k == "ax":
        return [sizes[d[1]]]
    if k == "num":
        return [d[1]]
    if k == "flat":
        p = 1
        for x in d[1]:
            for s in dim_size(x, sizes):
                p *= s
        return [p]
    if k == "cat":
        return [sum(int(np.prod([s for x in b for s in dim_size(x, sizes)], dtype=object)) for b in d[1])]
    if k == "ell":
        return [sizes[f"{d[1]}.{i}"] for i in range(d[2])]


def shape_of(dims, sizes):
    return tuple(int(s) for d in dims for s in dim_size(d, sizes))


def size_env(dims, sizes):
    """sizes incl. numbers"""
    env = dict(sizes)
    for d in dims:
        if d[0] == "num":
            env[f"#{d[3]}"] = d[1]
        elif d[0] == "flat":
            env.update(size_env(d[1], sizes))
        elif d[0] == "cat":
            for b in d[1]:
                env.update(size_env(b, sizes))
    return env


def unflatten(x, dims, sizes):
    env = size_env(dims, sizes)
    at = list(atoms(dims))
    return np.reshape(np.asarray(x), [env[n] for n, _ in at]), [n for n, _ in at], [b for _, b in at]


def loop_eval(el_op, ins, out, sizes, dtype=object):
    """generic loop semantics (no concatenation): one loop per un-bracketed axis name; equal names => same loop variable (diagonal);
    output-only axes repeat the value; el_op maps the bracketed sub-tensors (in input order) to the bracketed sub-tensor of the output."""
    env_sizes = dict(sizes)
    for _, d in ins:
        env_sizes.update(size_env(d, sizes))
    env_sizes.update(size_env(out, sizes))
    flat_ins = [unflatten(x, d, sizes) for x, d in ins]
    out_atoms = list(atoms(out))
    out_names = [n for n, _ in out_atoms]
    out_br = [b for _, b in out_atoms]
    vec = []
    for _, names, br in flat_ins:
        for n, b in zip(names, br):
            if not b and n not in vec:
                vec.append(n)
    for n, b in zip(out_names, out_br):
        if not b and n not in vec:
            vec.append(n)
    res = np.zeros([env_sizes[n] for n in out_names], dtype=dtype)
    for vals in itertools.product(*[range(env_sizes[n]) for n in vec]):
        env = dict(zip(vec, vals))
        subs = []
        for arr, names, br in flat_ins:
            idx = tuple(slice(None) if b else env[n] for n, b in zip(names, br))
            subs.append(arr[idx])
        r = el_op(*subs)
        oidx = tuple(slice(None) if b else env[n] for n, b in zip(out_names, out_br))
        res[oidx] = r
    return np.reshape(res, shape_of(out, sizes))


# ---------------------------------------------------------------------------------------------- id with concatenation
def branches(dims):
    """decompose an expression with concatenations into its list of concat-free branch expressions, in order (first '+' axis outermost),
    together with, for each branch, the slices it occupies: list of (branch_dims, selector) where selector maps top-level dim index -> (offset, length)"""
    out = [([], [])]
    for d in dims:
        if d[0] == "cat":
            new = []
            for pre, sel in out:
                for bi, b in enumerate(d[1]):
                    new.append((pre + [("flat", b)] if len(b) != 1 else pre + list(b), sel + [(bi, d)]))
            out = new
        elif d[0] == "flat" and has_cat(d[1]):
            raise ValueError("concatenation nested inside a flatten group is not generated")
        else:
            out = [(pre + [d], sel + [None]) for pre, sel in out]
    return out


def cat_slices(dims, sel, sizes):
    """index tuple selecting the block of a branch inside the full tensor of `dims`"""
    idx = []
    for d, s in zip(dims, sel):
        if s is None:
            idx += [slice(None)] * len(dim_size(d, sizes))
        else:
            bi, cd = s
            lens = [int(np.prod([q for x in b for q in dim_size(x, sizes)], dtype=object)) for b in cd[1]]
            off = sum(lens[:bi])
            idx.append(slice(off, off + lens[bi]))
    return tuple(idx)


def id_eval(ins, outs, sizes):
    """pure rearrangement: decomposed inputs pair with decomposed outputs in order; each pair is a concat-free rearrangement"""
    in_br = []
    for x, d in ins:
        x = np.asarray(x)
        for bd, sel in branches(d):
            in_br.append((x[cat_slices(d, sel, sizes)], bd))
    out_br = []
    for oi, d in enumerate(outs):
        for bd, sel in branches(d):
            out_br.append((oi, d, bd, sel))
    if len(in_br) != len(out_br):
        raise ValueError("id: number of decomposed inputs and outputs differ")
    results = [np.zeros(shape_of(d, sizes), dtype=object) for d in outs]
    for (xb, ibd), (oi, od, obd, sel) in zip(in_br, out_br):
        r = loop_eval(lambda v: v, [(xb, ibd)], obd, sizes)
        results[oi][cat_slices(od, sel, sizes)] = r
    return results
