"""Input-independent comparison of the generated text with the traced graph (C04 E3/E4/E5): the straight-line text is renamed apart
(every assignment is a fresh version; uses bind to the latest preceding definition; in-place statements make a new version of their target)
and the term of the returned value is compared with the term read off the IR graph (hash-consed by node identity)."""
import ast
import builtins
import numpy as np
import einx._src.tracer as tracer

P = tracer.signature.python


class Unsupported(Exception):
    pass


class Tm(int):
    """interned term id (distinct from integer atoms)"""
    __slots__ = ()


_TABLE = {}
_REV = []


def _tag(x):
    if isinstance(x, tuple):
        return tuple(("#", int(y)) if isinstance(y, Tm) else _tag(y) for y in x)
    return x


def T(*parts):
    """hash-consed term constructor: children are already interned (ints) or atoms; returns a small int"""
    key = tuple(("#", int(x)) if isinstance(x, Tm) else _tag(x) for x in parts)
    r = _TABLE.get(key)
    if r is None:
        r = Tm(len(_REV))
        _TABLE[key] = r
        _REV.append(parts)
    return r


def reset():
    _TABLE.clear()
    _REV.clear()


def ir_term(graph, asserts=None):
    memo = {}
    params = {}
    asserts = asserts if asserts is not None else []

    def bind_params(g, prefix):
        for k, inp in enumerate(g.inputs):
            params[id(inp)] = T("param", prefix, k)

    bind_params(graph, ())

    def key_term(k):
        # the emitter prints a 1-tuple key as x[k] (numpy: x[(k,)] is x[k]); stated assumption of the comparison
        if isinstance(k, tuple) and len(k) == 1:
            return t(k[0])
        return t(k)

    def t(x):
        if isinstance(x, (str, int, float, bool, np.integer, np.floating)) or x is None:
            return T("const", repr(x))
        if isinstance(x, (list, tuple)):
            return T("seq", type(x).__name__, tuple(t(i) for i in x))
        if isinstance(x, dict):
            return T("dict", tuple((t(k), t(v)) for k, v in x.items()))
        if isinstance(x, slice):
            return T("slice", t(x.start), t(x.stop), t(x.step))
        if isinstance(x, tracer.Graph):
            if id(x) in memo:
                return memo[id(x)]
            key = ("g", id(x))
            bind_params(x, key)
            r = T("lambda", len(x.inputs), t(x.output))
            memo[id(x)] = r
            return r
        if id(x) in memo:
            return memo[id(x)]
        if id(x) in params:
            return params[id(x)]
        o = x.origin
        if o is None:
            raise Unsupported("free input tracer")
        if isinstance(o, P.Call):
            r = T("call", t(o.function), tuple(t(a) for a in o.args), tuple((k, t(v)) for k, v in o.kwargs.items()))
        elif isinstance(o, P.CallInplace):
            r = T("inplace", t(o.xs), T("call", t(o.function), tuple(t(a) for a in o.args), tuple((k, t(v)) for k, v in o.kwargs.items())))
        elif isinstance(o, P.GetAttr):
            r = T("attr", t(o.obj), o.key) if isinstance(o.key, str) else ("call", T("builtin", "getattr"), (t(o.obj), t(o.key)), ())
        elif isinstance(o, P.GetItem):
            r = T("item", t(o.obj), key_term(o.key))
        elif isinstance(o, P.UpdateItem):
            r = T("update", o.op, t(o.obj), key_term(o.key), t(o.value))
        elif isinstance(o, P.Import):
            r = T("import", o.from_, o.import_)
        elif isinstance(o, P.OperatorApplication):
            r = T("op", o.operator, tuple(t(a) for a in o.operands))
        elif isinstance(o, P.Builtin):
            r = T("builtin", o.name)
        elif isinstance(o, P.Constant):
            r = T("constant", id(o.value))
        elif isinstance(o, P.Assert):
            # assertions are transparent for the value term; their presence is counted separately (E4)
            asserts.append(t(o.condition))
            inner = t(o.xs)
            outs = o.output
            if isinstance(outs, (list, tuple)):
                for k, oo in enumerate(outs):
                    memo[id(oo)] = T("item", inner, T("const", repr(k)))
                return memo[id(x)]
            r = inner
        elif isinstance(o, tracer.Cast):
            inner = t(o.input)
            outs = o.output
            if isinstance(outs, (list, tuple)):
                for k, oo in enumerate(outs):
                    memo[id(oo)] = T("item", inner, T("const", repr(k)))
                return memo[id(x)]
            r = inner
        else:
            raise Unsupported(type(o).__name__)
        memo[id(x)] = r
        return r

    return t(graph.output)


OPS = {ast.Eq: "==", ast.NotEq: "!=", ast.Lt: "<", ast.LtE: "<=", ast.Gt: ">", ast.GtE: ">=", ast.Add: "+", ast.Mult: "*", ast.Sub: "-", ast.Div: "/"}


def text_term(code, constants, asserts=None):
    mod = ast.parse(code)
    env = {}
    asserts = asserts if asserts is not None else []

    def e(n, env):
        if isinstance(n, ast.Constant):
            return T("const", repr(n.value))
        if isinstance(n, ast.Name):
            if n.id in env:
                return env[n.id]
            if n.id in constants:
                return T("constant", id(constants[n.id]))
            if hasattr(builtins, n.id):
                return T("builtin", n.id)
            raise Unsupported(f"free name {n.id}")
        if isinstance(n, ast.Attribute):
            return T("attr", e(n.value, env), n.attr)
        if isinstance(n, ast.Call):
            return T("call", e(n.func, env), tuple(e(a, env) for a in n.args), tuple((k.arg, e(k.value, env)) for k in n.keywords))
        if isinstance(n, (ast.Tuple, ast.List)):
            return T("seq", "tuple" if isinstance(n, ast.Tuple) else "list", tuple(e(x, env) for x in n.elts))
        if isinstance(n, ast.Subscript):
            return T("item", e(n.value, env), e(n.slice, env))
        if isinstance(n, ast.Slice):
            return T("slice", *(e(x, env) if x is not None else T("const", "None") for x in (n.lower, n.upper, n.step)))
        if isinstance(n, ast.UnaryOp) and isinstance(n.op, ast.USub) and isinstance(n.operand, ast.Constant):
            return T("const", repr(-n.operand.value))
        if isinstance(n, ast.Compare) and len(n.ops) == 1:
            return T("op", OPS[type(n.ops[0])], (e(n.left, env), e(n.comparators[0], env)))
        if isinstance(n, ast.BinOp):
            return T("op", OPS[type(n.op)], (e(n.left, env), e(n.right, env)))
        if isinstance(n, ast.Dict):
            return T("dict", tuple((e(k, env), e(v, env)) for k, v in zip(n.keys, n.values)))
        raise Unsupported(ast.dump(n)[:60])

    def func(st, env, depth):
        fenv = dict(env)
        key = ("g", depth, st.name)
        ret = None
        params = []
        for k, a in enumerate(st.args.args):
            params.append(a.arg)
        return st, fenv

    def run_function(st, env, param_terms):
        fenv = dict(env)
        for a, tm in zip(st.args.args, param_terms):
            fenv[a.arg] = tm
        ret = None
        for s2 in st.body:
            if isinstance(s2, ast.Assign):
                (tg,) = s2.targets
                if isinstance(tg, ast.Subscript) and isinstance(tg.value, ast.Name):
                    fenv[tg.value.id] = T("update", "=", fenv[tg.value.id], e(tg.slice, fenv), e(s2.value, fenv))
                elif isinstance(tg, ast.Name):
                    fenv[tg.id] = e(s2.value, fenv)
                else:
                    raise Unsupported("assignment target")
            elif isinstance(s2, ast.AugAssign):
                tg = s2.target
                if not (isinstance(tg, ast.Subscript) and isinstance(tg.value, ast.Name)):
                    raise Unsupported("augmented assignment target")
                op = {ast.Add: "+=", ast.Sub: "-="}[type(s2.op)]
                fenv[tg.value.id] = T("update", op, fenv[tg.value.id], e(tg.slice, fenv), e(s2.value, fenv))
            elif isinstance(s2, ast.Expr):
                c = s2.value
                if not (isinstance(c, ast.Call) and c.args and isinstance(c.args[0], ast.Name)):
                    raise Unsupported("expression statement")
                tgt = c.args[0]
                fenv[tgt.id] = T("inplace", fenv[tgt.id], e(c, fenv))
            elif isinstance(s2, ast.Assert):
                asserts.append(e(s2.test, fenv))
            elif isinstance(s2, ast.Return):
                ret = e(s2.value, fenv)
            elif isinstance(s2, ast.FunctionDef):
                inner = s2
                outer_env = dict(fenv)
                key = ("g", id(inner))
                body = run_function(inner, outer_env, [T("param", key, k) for k in range(len(inner.args.args))])
                fenv[inner.name] = T("lambda", len(inner.args.args), body)
            elif isinstance(s2, (ast.Import, ast.ImportFrom)):
                do_import(s2, fenv)
            else:
                raise Unsupported(type(s2).__name__)
        return ret

    def do_import(st, env):
        if isinstance(st, ast.Import):
            for a in st.names:
                env[a.asname or a.name] = T("import", None, a.name)
        else:
            for a in st.names:
                env[a.asname or a.name] = T("import", st.module, a.name)

    result = None
    for st in mod.body:
        if isinstance(st, (ast.Import, ast.ImportFrom)):
            do_import(st, env)
        elif isinstance(st, ast.FunctionDef):
            body = run_function(st, env, [T("param", (), k) for k in range(len(st.args.args))])
            env[st.name] = T("lambda0", body)
            result = body
        elif isinstance(st, ast.Assign):
            (tg,) = st.targets
            env[tg.id] = e(st.value, env)
        else:
            raise Unsupported(type(st).__name__)
    return result


def normalise_lambda_params(term):
    """nested-graph parameters are keyed by object identity on both sides: replace the keys by their order of first occurrence (memoised over the DAG)"""
    keys, memo = {}, {}

    def go(t):
        if isinstance(t, Tm):
            if t in memo:
                return memo[t]
            parts = _REV[t]
            if len(parts) == 3 and parts[0] == "param" and parts[1] != ():
                k = keys.setdefault(parts[1], len(keys))
                r = T("param", ("g", k), parts[2])
            else:
                r = T(*[gov(x) for x in parts])
            memo[t] = r
            return r
        return t

    def gov(x):
        if isinstance(x, tuple):
            return tuple(gov(y) for y in x)
        if isinstance(x, Tm):
            return go(x)
        return x

    return go(term)


def free_names(code, allowed):
    """names used but neither bound in the text (imports, defs, assignments, parameters) nor allowed (constants, builtins)"""
    mod = ast.parse(code)
    bound = set()
    for n in ast.walk(mod):
        if isinstance(n, (ast.Import, ast.ImportFrom)):
            for a in n.names:
                bound.add((a.asname or a.name).split(".")[0])
        elif isinstance(n, ast.FunctionDef):
            bound.add(n.name)
            for a in n.args.args:
                bound.add(a.arg)
        elif isinstance(n, ast.Name) and isinstance(n.ctx, ast.Store):
            bound.add(n.id)
    used = {n.id for n in ast.walk(mod) if isinstance(n, ast.Name) and isinstance(n.ctx, ast.Load)}
    return sorted(u for u in used if u not in bound and u not in allowed and not hasattr(builtins, u))
